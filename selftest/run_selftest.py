"""Unit tests of the explorer and of the reference models on hand-computed cases.
Run with ./check selftest (exit 0 = all passed)."""
import math
import sys
import traceback


def t_enumeration_counts():
    from xmc.core import ChoiceSource, enumerate_scripts

    def mk(menus):
        seen = []

        def run(script, expect, changed):
            src = ChoiceSource(script, expect)
            for k, n in menus:
                src.choose(k, n)
            seen.append(tuple(src.answers()))
            return src.points

        return run, seen

    run, seen = mk([("reward", 2)] * 3)
    n, ex = enumerate_scripts(run)
    assert (n, ex) == (8, True) and len(set(seen)) == 8 and seen == sorted(seen), (n, seen)
    run, seen = mk([("reward", 3)] * 3)
    n, ex = enumerate_scripts(run, budget_kinds="*", k=1)
    assert n == 1 + 3 * 2 and len(set(seen)) == n, n
    n2, _ = enumerate_scripts(mk([("reward", 3)] * 3)[0], budget_kinds="*", k=2)
    assert n2 == 1 + 6 + 3 * 4, n2
    run, seen = mk([("reward", 2), ("randint", 3), ("reward", 2), ("randint", 3)])
    n, ex = enumerate_scripts(run, budget_kinds={"randint"}, k=1)
    assert n == 4 * (1 + 2 + 2), n
    run, seen = mk([("reward", 2)] * 4)
    n, ex = enumerate_scripts(run, prefix=[1, 0])
    assert n == 4 and all(s[:2] == (1, 0) for s in seen), seen
    n, ex = enumerate_scripts(mk([("reward", 2)] * 4)[0], max_exec=5)
    assert (n, ex) == (5, False)


def t_divergence_is_harness_error():
    from xmc.core import ChoiceSource, HarnessError

    src = ChoiceSource([1, 2], [("reward", 3), ("reward", 3)])
    src.choose("reward", 3)
    try:
        src.choose("randint", 3)
    except HarnessError:
        return
    raise AssertionError("divergent replay not detected")


def t_changed_position_semantics():
    from xmc.core import ChoiceSource, enumerate_scripts

    log = []

    def run(script, expect, changed):
        src = ChoiceSource(script, expect)
        for _ in range(3):
            src.choose("reward", 2)
        log.append((tuple(src.answers()), changed))
        return src.points

    enumerate_scripts(run)
    assert log[0][1] == -1
    for (a, ch), (b, _) in zip(log[1:], log):
        first_diff = min(i for i in range(3) if a[i] != b[i])
        assert ch == first_diff, (a, b, ch)


def t_rng_seam():
    import numpy as np
    from xmc.core import ChoiceSource
    from xmc.world import seam

    sm = seam()
    st = np.random.get_state()[1].copy()
    src = ChoiceSource([1, 2, 0])
    sm.set_source(src)
    assert np.random.uniform(2.0, 4.0) == 2.0  # menu entry 1 = the end-point draw
    assert np.random.randint(0, 3) == 2
    assert np.random.randint(0, 1) == 0 and src.pos == 2  # single-entry menus are not choice points
    assert np.random.choice([0, 1, 2], p=[0.0, 0.5, 0.5]) == 1  # support = {1,2}; answer 0 -> first of the support
    try:
        np.random.choice([0, 1], p=[0.7, 0.7])
        raise AssertionError("bad p accepted")
    except ValueError as e:
        assert "probabilities do not sum to 1" in str(e)
    import PyXAB.partition.RandomBinaryPartition as m

    src2 = ChoiceSource([])
    sm.set_source(src2)
    P = m.RandomBinaryPartition(domain=[[0.0, 1.0], [0.0, 1.0]])
    P.deepen()
    assert [p[0] for p in src2.points] == ["randint", "uniform"], src2.points
    assert (np.random.get_state()[1] == st).all()


def t_structural_oracles():
    from xmc.core import Violation
    from xmc.observe import check_split, check_tiling, check_tree_index
    from xmc import configs

    P = configs.part_class("Kary", 3)(domain=[[0.0, 1.0]])
    P.deepen()
    P.deepen()
    check_tree_index(P)
    check_tiling(P)
    root = P.get_root()
    check_split("Kary", 3, root, root.get_children())
    # corrupt: alias a sibling's child into the first cell's child list
    a, b = root.get_children()[0], root.get_children()[1]
    a.get_children().append(b.get_children()[0])
    try:
        check_tree_index(P)
        raise AssertionError("aliasing not detected")
    except Violation as v:
        assert v.oracle.startswith("C03")
    a.get_children().pop()
    # corrupt a boundary by one ulp
    c0 = root.get_children()[0]
    c0.domain[0][1] = math.nextafter(float(c0.domain[0][1]), 1.0)
    try:
        check_split("Kary", 3, root, root.get_children())
        raise AssertionError("1-ulp gap not detected")
    except Violation as v:
        assert v.oracle == "C02.shared", v.oracle


def t_reference_constants():
    from xmc.refs.tree_bandits import ceil_set, epoch
    from xmc.refs.zooming import phase_of
    from xmc.refs.sequool import h_max_of
    from xmc.refs.wrappers import gpo_N

    assert [epoch(t) for t in (1, 2, 3, 4, 5, 8, 9)] == [0, 1, 2, 2, 3, 3, 4]
    assert ceil_set(2.3) == {3} and ceil_set(3.0) == {3, 4} and ceil_set(2.9999999999) == {3, 4}
    assert [phase_of(t) for t in (1, 2, 3, 6, 7, 14, 15)] == [1, 1, 2, 2, 3, 3, 4]
    assert h_max_of(100) == 19 and h_max_of(10) == 3
    assert gpo_N(100, 0.9) == 9 and 100 // (2 * gpo_N(100, 0.9)) == 5 and gpo_N(100, 0.1) == 1 and gpo_N(100, 0.99) == 88


def t_hct_reference_hand_computed():
    """HCT defaults, rewards 1 then 0 on Binary [0,1]: hand-computed U/B after each round."""
    from xmc import configs
    from xmc.core import ChoiceSource
    from xmc.world import seam

    seam().set_source(ChoiceSource([]))
    algo, _ = configs.build(configs.cfg("HCT", nu=1, rho=0.5, c=0.1, delta=0.01))
    c1 = (0.5 / 3) ** 0.125
    x = algo.pull(1)
    assert x == [0.75], x  # ties between infinite B-values go to the last child
    algo.receive_reward(1, 1.0)
    n = algo.partition.get_node_list()[1][1]
    want = 1.0 + 0.5 + 0.1 * math.sqrt(math.log(1 / (c1 * 0.01 / 1)))
    assert abs(n.get_u_value() - want) < 1e-12, (n.get_u_value(), want)
    assert n.get_children() is not None  # tau_1(1) = ceil(0.01*ln(1/dt)*4) = 1 reached
    x = algo.pull(2)
    assert x == [0.25], x  # the unvisited sibling has infinite B
    algo.receive_reward(2, 0.0)
    # round 2 is a power of two: everything was refreshed with delta~ of t+ = 2 before the update
    want2 = 1.0 + 0.5 + 0.1 * math.sqrt(math.log(1 / (c1 * 0.01 / 2)))
    assert abs(n.get_u_value() - want2) < 1e-12, (n.get_u_value(), want2)
    assert n.get_b_value() == n.get_u_value()  # its children are unvisited: min(U, inf)


def t_oracles_flag_a_wrong_implementation():
    """The C05 oracle must reject a learner whose U-values are off by a constant."""
    from xmc import configs
    from xmc.algorun import run_algo_task
    from xmc.refs.tree_bandits import TreeBanditOracle
    from PyXAB.algos.HCT import HCT_node

    task = {"label": "selftest", "cfg": configs.cfg("HCT", nu=1, rho=0.5, c=0.1, delta=0.01), "mode": "full", "T": 4, "R": [0.0, 1.0]}
    st = run_algo_task(task, lambda: [TreeBanditOracle("C05")])
    assert not st.violations and st.executions == 16, (st.executions, st.violations[:1])
    orig = HCT_node.compute_u_value

    def bad(self, nu, rho, c, delta_tilde):
        orig(self, nu, rho, c, delta_tilde)
        if self.visited_times:
            self.u_value += 0.01

    HCT_node.compute_u_value = bad
    try:
        st = run_algo_task(task, lambda: [TreeBanditOracle("C05")])
    finally:
        HCT_node.compute_u_value = orig
    assert st.violations and st.violations[0]["oracle"] == "C05.U", st.violations[:1]


def t_more_hand_computed_references():
    """T-HOO index, Zooming phase/index, SequOOL opening counts, GPO parameters - computed by hand."""
    from xmc import configs
    from xmc.core import ChoiceSource
    from xmc.world import seam

    seam().set_source(ChoiceSource([]))
    # T-HOO(nu=1, rho=0.5, n=100) on [0,1]: after reward 0.25 at the first pull the pulled child has
    # U = 0.25 + sqrt(2 ln 100 / 1) + 0.5, the root path is credited, the sibling stays at +inf
    a, _ = configs.build(configs.cfg("T_HOO", nu=1, rho=0.5, rounds=100))
    x = a.pull(1)
    a.receive_reward(1, 0.25)
    kids = a.partition.get_root().get_children()
    pulled = [k for k in kids if k.get_cpoint() == x][0]
    other = [k for k in kids if k is not pulled][0]
    assert abs(pulled.get_u_value() - (0.25 + math.sqrt(2 * math.log(100)) + 0.5)) < 1e-12
    assert other.get_u_value() == float("inf") and a.partition.get_root().get_visited_times() == 1
    # truncation depth ceil((ln(100)/2 - 0) / ln 2) = ceil(3.32) = 4
    from xmc.refs.tree_bandits import ceil_set

    assert ceil_set((math.log(100) / 2 - math.log(1 / 1)) / math.log(2)) == {4}
    # Zooming: two arms at 0.25 / 0.75, index 0 + 2 sqrt(8*1/2) = 4 for both at the first pull
    z, _ = configs.build(configs.cfg("Zooming", nu=1, rho=0.9))
    assert sorted(tuple(p.get_point()) for p in z.active_points) == [(0.25,), (0.75,)]
    assert abs(2 * math.sqrt(8 * 1 / (2 + 0)) - 4.0) < 1e-15
    # SequOOL n=10: H_10 = 2.928..., h_max = 3, openings 1 + 3 + 1 + 1 = 6 -> 12 evaluations on a binary partition
    from xmc.props.c12 import schedule_len

    assert schedule_len(10, 2) == 12 and schedule_len(10, 3) == 18
    # GPO n=100, rho_max=0.9: N=9, floor(n/2N)=5, rho of phase 1 = 0.9^(18/3) = 0.531441
    assert abs(0.9 ** (2 * 9 / 3) - 0.531441) < 1e-12


TESTS = [t_enumeration_counts, t_divergence_is_harness_error, t_changed_position_semantics, t_rng_seam, t_structural_oracles,
         t_reference_constants, t_hct_reference_hand_computed, t_more_hand_computed_references, t_oracles_flag_a_wrong_implementation]


def main():
    bad = 0
    for t in TESTS:
        try:
            t()
            print("ok   %s" % t.__name__)
        except Exception:
            bad += 1
            print("FAIL %s\n%s" % (t.__name__, traceback.format_exc()))
    print("selftest: %d/%d passed" % (len(TESTS) - bad, len(TESTS)))
    return 1 if bad else 0


if __name__ == "__main__":
    sys.exit(main())

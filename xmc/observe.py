"""Observation: tree walkers, canonical state digests, the structural oracles of C02
(tiling) and C03 (tree / per-depth index consistency).  All are pure functions of the
observable state reached through the public getters.
"""
import math
from fractions import Fraction

import numpy as np

from .core import Violation, HarnessError


# ----------------------------------------------------------------------------- walking
def reachable(partition):
    """Cells reachable from the root through child lists, as a list of levels
    (lists of nodes, in child-list order).  Raises Violation if a cell is reached twice."""
    root = partition.get_root()
    levels = [[root]]
    seen = {id(root)}
    while True:
        nxt = []
        for node in levels[-1]:
            ch = node.get_children()
            if ch is None:
                continue
            for c in ch:
                if id(c) in seen:
                    raise Violation("C03.reach", "cell (%s,%s) is reachable from the root twice "
                                    "(it is in the child list of two cells or twice in one)"
                                    % (c.get_depth(), c.get_index()))
                seen.add(id(c))
                nxt.append(c)
        if not nxt:
            break
        levels.append(nxt)
        if len(levels) > 10000:
            raise Violation("C03.reach", "child links do not terminate")
    return levels


def all_nodes(partition):
    return [n for lvl in reachable(partition) for n in lvl]


def leaves(partition):
    return [n for lvl in reachable(partition) for n in lvl if n.get_children() is None]


def cell_id(node):
    return (node.get_depth(), node.get_index())


def path_id(node):
    """Identity of a cell that does not rely on the (depth,index) labels: the sequence of
    child positions from the root."""
    out = []
    while node.get_parent() is not None:
        par = node.get_parent()
        ch = par.get_children()
        k = None
        if ch is not None:
            for i, c in enumerate(ch):
                if c is node:
                    k = i
                    break
        out.append(k)
        node = par
    return tuple(reversed(out))


# ----------------------------------------------------------------------------- digests
_SCALARS = (int, float, bool, np.integer, np.floating, np.bool_)


def _val(v):
    if v is None or isinstance(v, (bool, int, str)):
        return v
    if isinstance(v, (float, np.floating)):
        v = float(v)
        return "nan" if v != v else v
    if isinstance(v, (np.integer, np.bool_)):
        return v.item()
    if isinstance(v, (list, tuple)):
        if len(v) > 0 and not isinstance(v[0], _SCALARS + (list, tuple)):
            return ("objs", len(v))
        return tuple(_val(x) for x in v)
    if isinstance(v, np.ndarray):
        return tuple(v.tolist())
    return None


_SKIP = frozenset(("parent", "children", "domain", "c_point"))


def node_digest(node):
    items = []
    for k, v in node.__dict__.items():
        if k in _SKIP:
            continue
        t = type(v)
        if t is float or t is int or t is bool or v is None:
            items.append(v)
        elif t is list:
            try:
                items.append(hash(tuple(v)))
            except TypeError:
                items.append(_val(v))
        else:
            items.append(_val(v))
    try:
        dom = tuple([(float(iv[0]), float(iv[1])) for iv in node.domain])
    except Exception:
        dom = None
    ch = node.children
    return hash((tuple(items), dom, -1 if ch is None else len(ch)))


def partition_digest(partition):
    out = []
    stack = [partition.get_root()]
    seen = set()
    while stack:
        n = stack.pop()
        if id(n) in seen:
            continue
        seen.add(id(n))
        out.append(node_digest(n))
        ch = n.get_children()
        if ch:
            stack.extend(reversed(ch))
    out.append(partition.get_depth())
    out.append(tuple([len(l) for l in partition.get_node_list()]))
    return hash(tuple(out))


REGISTERS = frozenset(("path", "curr_node", "best_arm", "max_b_node_ind", "max_b_node_h"))


def algo_digest(algo, _depth=0, registers=True):
    """Canonical digest of the observable state of an algorithm object: scalar
    attributes, its partition tree(s), nested learners."""
    from PyXAB.partition.Partition import Partition
    from PyXAB.algos.Algo import Algorithm

    items = []
    d = algo.__dict__
    for k in sorted(d):
        v = d[k]
        if k.startswith("_xmc") or (not registers and k in REGISTERS):
            continue
        if isinstance(v, Partition):
            items.append((k, partition_digest(v)))
        elif isinstance(v, Algorithm):
            if _depth < 3:
                items.append((k, algo_digest(v, _depth + 1, registers)))
        elif isinstance(v, list) and v and isinstance(v[0], Algorithm):
            if _depth < 3:
                items.append((k, tuple(algo_digest(a, _depth + 1, registers) for a in v)))
        elif isinstance(v, dict):
            # Zooming: dicts keyed by arm objects, insertion ordered
            vals = []
            for kk, vv in v.items():
                key = tuple(kk.get_point()) if hasattr(kk, "get_point") else None
                if isinstance(vv, type):
                    continue
                if hasattr(vv, "get_depth") and hasattr(vv, "get_index"):
                    vv = (vv.get_depth(), vv.get_index())
                vals.append((key, _val(vv)))
            items.append((k, tuple(vals)))
        elif hasattr(v, "get_depth") and hasattr(v, "get_index"):
            items.append((k, (v.get_depth(), v.get_index())))
        elif isinstance(v, list) and v and hasattr(v[0], "get_depth"):
            items.append((k, tuple((n.get_depth(), n.get_index()) for n in v)))
        elif callable(v) or isinstance(v, type):
            continue
        else:
            items.append((k, _val(v)))
    return hash(tuple(items))


# ----------------------------------------------------------------------------- C03 oracle
def check_tree_index(partition, where=""):
    """C03: per-depth index == reachable cells; parent/child links; labels."""
    levels = reachable(partition)  # raises if a cell is reachable twice
    node_list = partition.get_node_list()
    deepest = len(levels) - 1
    if partition.get_depth() != deepest:
        raise Violation("C03.depth", "get_depth() = %r but the deepest non-empty level reachable from the root is %d %s"
                        % (partition.get_depth(), deepest, where))
    nonempty = [h for h in range(len(node_list)) if len(node_list[h]) > 0]
    if not nonempty or nonempty[-1] != deepest:
        raise Violation("C03.depth", "node list has non-empty levels %r, tree has depth %d %s" % (nonempty[-3:], deepest, where))
    for h, lvl in enumerate(levels):
        listed = node_list[h]
        ids_listed = [id(n) for n in listed]
        if len(set(ids_listed)) != len(ids_listed):
            raise Violation("C03.index", "a cell is listed twice at depth %d %s" % (h, where))
        ids_reach = {id(n) for n in lvl}
        if set(ids_listed) != ids_reach:
            extra = [cell_id(n) for n in listed if id(n) not in ids_reach]
            missing = [cell_id(n) for n in lvl if id(n) not in set(ids_listed)]
            raise Violation("C03.index", "depth %d: listed-but-unreachable %r, reachable-but-unlisted %r %s"
                            % (h, extra[:6], missing[:6], where), listed_not_reachable=extra[:20], reachable_not_listed=missing[:20])
        labels = set()
        for n in lvl:
            if n.get_depth() != h:
                raise Violation("C03.depthlabel", "cell labelled depth %r sits at tree depth %d %s" % (n.get_depth(), h, where))
            lab = n.get_index()
            try:
                lab = int(lab)  # exact integer arithmetic below, whatever integer type the library stores
            except Exception:
                raise Violation("C03.labels", "cell at depth %d carries a non-integer index %r %s" % (h, lab, where))
            if lab in labels:
                raise Violation("C03.labels", "label (%d,%r) used twice %s" % (h, lab, where))
            labels.add(lab)
            ch = n.get_children()
            if ch is not None:
                K = len(ch)
                for j, c in enumerate(ch):
                    if c.get_parent() is not n:
                        p = c.get_parent()
                        raise Violation("C03.parent", "cell (%d,%r) lists child (%r,%r) whose parent is %r: created by splitting another cell %s"
                                        % (h, lab, c.get_depth(), c.get_index(), None if p is None else cell_id(p), where))
                    want = K * (lab - 1) + 1 + j
                    if int(c.get_index()) != want:
                        raise Violation("C03.childindex", "child #%d of cell (%d,%r) carries index %r, expected %d (K=%d) %s"
                                        % (j, h, lab, c.get_index(), want, K, where))
            if h > 0:
                p = n.get_parent()
                if p is None or p.get_children() is None or not any(c is n for c in p.get_children()):
                    raise Violation("C03.parent", "cell (%d,%r) is not in its parent's child list %s" % (h, lab, where))
    if partition.get_root().get_parent() is not None:
        raise Violation("C03.parent", "root has a parent %s" % where)
    return levels


# ----------------------------------------------------------------------------- C02 oracle
def _fr(x):
    return Fraction(float(x))


def _ulp_close(x, exact, ulps=2, scale=0.0):
    """|x - exact| <= ulps * ulp(max(|x|, scale)) with exact a Fraction; `scale` is the
    magnitude of the operands the value was computed from (parent bounds)."""
    x = float(x)
    if not math.isfinite(x):
        return False
    u = math.ulp(max(abs(x), abs(float(scale)), abs(float(exact))))
    return abs(Fraction(x) - exact) <= ulps * Fraction(u)


def box_of(node):
    return [(float(iv[0]), float(iv[1])) for iv in node.get_domain()]


def check_split(part_name, K, parent, children, where=""):
    """C02, per expansion, exact (bit-level) facts."""
    pb = box_of(parent)
    d = len(pb)
    for lo, hi in pb:
        if not (math.isfinite(lo) and math.isfinite(hi)):
            raise Violation("C02.finite", "parent box not finite %r %s" % (pb, where))
    if part_name in ("Binary", "RandomBinary"):
        want = 2
    elif part_name == "DimensionBinary":
        want = 2 ** d
    else:
        want = 3 if K is None else K
    if children is None or len(children) != want:
        raise Violation("C02.arity", "%s split produced %r children, documented arity %d %s"
                        % (part_name, None if children is None else len(children), want, where))
    cbs = [box_of(c) for c in children]
    for cb in cbs:
        if len(cb) != d:
            raise Violation("C02.dim", "child has %d dimensions, parent %d %s" % (len(cb), d, where))
        for (lo, hi), (plo, phi) in zip(cb, pb):
            if not (plo <= lo <= hi <= phi):
                raise Violation("C02.contain", "child box %r not inside parent %r %s" % (cb, pb, where))
    if part_name == "DimensionBinary":
        # children are exactly the Cartesian product of the per-dimension halves, each once
        import itertools
        from collections import Counter

        halves = []
        for dim in range(d):
            m = cbs[0][dim][1]  # upper bound of the first child's interval = the shared boundary
            if not all(cb[dim] in ((pb[dim][0], m), (m, pb[dim][1])) for cb in cbs):
                bad = [cb[dim] for cb in cbs if cb[dim] not in ((pb[dim][0], m), (m, pb[dim][1]))]
                raise Violation("C02.faces", "dimension %d: child interval %r is neither [parent lo, m] nor [m, parent hi] "
                                "with m=%r, parent %r %s" % (dim, bad[0], m, pb[dim], where))
            exact = (_fr(pb[dim][0]) + _fr(pb[dim][1])) / 2
            if not _ulp_close(m, exact, 2, max(abs(pb[dim][0]), abs(pb[dim][1]))):
                raise Violation("C02.equal", "split of dimension %d at %r is not the midpoint of %r %s" % (dim, m, pb[dim], where))
            halves.append(((pb[dim][0], m), (m, pb[dim][1])))
        want_boxes = Counter(tuple(c) for c in itertools.product(*halves))
        got_boxes = Counter(tuple(cb) for cb in cbs)
        if want_boxes != got_boxes:
            raise Violation("C02.product", "children are not the Cartesian product of the per-dimension halves, each once "
                            "(parent %r, children %r) %s" % (pb, cbs, where))
        split_dims = list(range(d))
    else:
        # exactly one split dimension; other dimensions bit-equal to the parent's
        diff = [dim for dim in range(d) if any(cb[dim] != pb[dim] for cb in cbs)]
        if len(diff) > 1:
            raise Violation("C02.dims", "children differ from the parent in dimensions %r (expected one) %s" % (diff, where))
        if len(diff) == 0:
            # every child equals the parent: fine only if the parent has empty interior
            if all(lo < hi for lo, hi in pb):
                raise Violation("C02.disjoint", "all children equal the parent box %r %s" % (pb, where))
            return []
        dim = diff[0]
        ivs = [cb[dim] for cb in cbs]
        if ivs[0][0] != pb[dim][0] or ivs[-1][1] != pb[dim][1]:
            raise Violation("C02.faces", "outer faces %r,%r are not the parent's %r %s" % (ivs[0][0], ivs[-1][1], pb[dim], where))
        for a, b in zip(ivs, ivs[1:]):
            if a[1] != b[0]:
                raise Violation("C02.shared", "neighbouring children do not share a bit-identical boundary: %r | %r %s" % (a, b, where))
        if part_name in ("Binary", "Kary"):
            w = (_fr(pb[dim][1]) - _fr(pb[dim][0])) / want
            for j, (a, b) in enumerate(ivs):
                ea = _fr(pb[dim][0]) + j * w
                eb = _fr(pb[dim][0]) + (j + 1) * w
                sc = max(abs(pb[dim][0]), abs(pb[dim][1]))
                if not (_ulp_close(a, ea, 4, sc) and _ulp_close(b, eb, 4, sc)):
                    raise Violation("C02.equal", "child %d interval %r is not the %d-th of %d equal parts of %r %s"
                                    % (j, (a, b), j, want, pb[dim], where))
        split_dims = [dim]
    # representative = centre (every partition class: P_node takes the midpoint)
    for c, cb in zip(children, cbs):
        cp = c.get_cpoint()
        if len(cp) != d:
            raise Violation("C02.centre", "representative has wrong dimension %s" % where)
        for x, (lo, hi) in zip(cp, cb):
            exact = (_fr(lo) + _fr(hi)) / 2
            if not (_ulp_close(x, exact, 2, max(abs(lo), abs(hi))) and lo <= float(x) <= hi):
                raise Violation("C02.centre", "representative %r is not the centre of %r %s" % (cp, cb, where))
    return split_dims


def check_tiling(partition, where="", pairwise_max=24):
    """C02, per state: leaves have exact rational volumes summing to the root's and are
    pairwise interior-disjoint (exact arithmetic on the float bounds)."""
    root = partition.get_root()
    lv = leaves(partition)
    rb = box_of(root)

    def vol(b):
        v = Fraction(1)
        for lo, hi in b:
            v *= _fr(hi) - _fr(lo)
        return v

    boxes = [box_of(n) for n in lv]
    tot = sum((vol(b) for b in boxes), Fraction(0))
    if tot != vol(rb):
        raise Violation("C02.tiling", "leaf volumes sum to %s, domain volume is %s %s" % (float(tot), float(vol(rb)), where))
    for i in range(len(boxes)):
        bi = boxes[i]
        for (lo, hi), (rlo, rhi) in zip(bi, rb):
            if not (rlo <= lo <= hi <= rhi):
                raise Violation("C02.tiling", "leaf %r sticks out of the domain %r %s" % (bi, rb, where))
        if len(boxes) > pairwise_max:
            # large trees: disjointness follows by induction from the per-split checks
            continue
        for j in range(i + 1, len(boxes)):
            bj = boxes[j]
            # interiors intersect iff on every dimension the open intervals intersect
            if all(max(a[0], b[0]) < min(a[1], b[1]) for a, b in zip(bi, bj)):
                raise Violation("C02.tiling", "leaves %r and %r overlap %s" % (bi, bj, where))
    return len(lv)

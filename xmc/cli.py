"""./check entry point."""
import argparse
import importlib
import json
import os
import sys
import time


def main(argv=None):
    argv = list(sys.argv[1:] if argv is None else argv)
    if not argv:
        print(__doc__)
        return 2
    if argv[0] == "replay":
        return replay(argv[1])
    if argv[0] == "selftest":
        from selftest import run_selftest

        return run_selftest.main()
    ap = argparse.ArgumentParser()
    ap.add_argument("prop")
    ap.add_argument("--tier", default=os.environ.get("VERIF_TIER", "quick"))
    ap.add_argument("--only", default=None, help="substring filter on task labels (debugging)")
    ap.add_argument("--workers", type=int, default=None)
    a = ap.parse_args(argv)
    seed = int(os.environ.get("VERIF_SEED", "0") or 0)
    tier = a.tier if a.tier in ("quick", "thorough") else "quick"
    prop = a.prop.upper()
    t0 = time.time()
    from xmc import runner
    from xmc.core import HarnessError

    modname = "xmc.props.%s" % prop.lower()
    try:
        mod = importlib.import_module(modname)
        tasks = mod.tasks(tier, seed)
    except HarnessError as e:
        print("HARNESS-ERROR property=%s %s" % (prop, e))
        return 2
    # every task of the thorough tier is cut after XMC_TASK_CAP seconds (default 600); a cut is reported in the
    # evidence (exhaustive: false, caps_hit) - it never turns into a verdict
    cap = float(os.environ.get("XMC_TASK_CAP", "600" if tier == "thorough" else "0") or 0)
    # ... and the whole check has a wall-clock budget (XMC_BUDGET seconds, default 1500 for thorough, none for
    # quick): when it is used up every running enumeration stops after its current execution
    budget = float(os.environ.get("XMC_BUDGET", "1500" if tier == "thorough" else "0") or 0)
    for t in tasks:
        t["_prop"] = prop
        if cap > 0:
            t.setdefault("time_cap", cap)
        if budget > 0:
            t["deadline_abs"] = t0 + budget
    all_tasks = list(tasks)
    if a.only:
        tasks = [t for t in tasks if a.only in t.get("label", "")]
    # biggest tasks first (cost hint), stable order otherwise
    tasks.sort(key=lambda t: -t.get("cost", 0))
    print("%s tier=%s seed=%d: %d tasks" % (prop, tier, seed, len(tasks)), flush=True)
    stats, errors = runner.run_pool(modname, tasks, workers=a.workers)
    if os.environ.get("XMC_TIMING"):
        print("    pool done at %.1fs" % (time.time() - t0), flush=True)
    if hasattr(mod, "post"):
        mod.post(stats, tier, seed)
    return runner.finish(prop, tier, seed, mod.LEVEL, stats, errors, t0, mod.RULE, mod.ASSUMPTIONS,
                         replay_fn=mod.replay, bounds=mod.bounds(tier) if hasattr(mod, "bounds") else None,
                         vacuity=getattr(mod, "VACUITY", None), extra=getattr(mod, "EXTRA", None), all_tasks=all_tasks)


def replay(path):
    """Re-execute one recorded violation without the explorer: plain loop, plain asserts."""
    with open(path) as f:
        rec = json.load(f)
    prop = rec["property"]
    mod = importlib.import_module("xmc.props.%s" % prop.lower())
    if rec.get("needs_warmup"):
        from xmc import runner

        n = runner._warm_up(mod.replay, mod.tasks(rec.get("tier", "quick"), rec.get("seed", 0)), exclude_cfg=rec["config"])
        print("warm-up: %d configurations executed once in this process first" % n)
    res = mod.replay(rec["task"], rec["script"])
    print("replay of %s: property=%s config=%s" % (path, prop, json.dumps(rec["config"])))
    print("script=%s" % rec["script"])
    if res:
        for r in res:
            if isinstance(r, str):
                print("  %s" % r)
            else:
                print("  FAILS oracle=%s: %s" % (r["oracle"], r["message"]))
        print("VIOLATION property=%s replay=%s" % (prop, path))
        return 1
    print("  does not fail on the current tree")
    return 0


if __name__ == "__main__":
    sys.exit(main())

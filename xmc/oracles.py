"""Invariant-style oracles evaluated inside algorithm explorations."""
import copy
import math

import numpy as np

from . import configs
from .core import HarnessError, Violation
from .observe import check_split, check_tiling, check_tree_index, reachable
from .world import Oracle, partitions_of


class TreeIndexOracle(Oracle):
    """C03 part B: tree / per-depth index consistency of every partition the algorithm owns."""

    name = "C03"

    def _check(self, ctx, when):
        st = ctx.extra["stats"]
        for P in partitions_of(ctx.algo):
            lv = check_tree_index(P, "(%s, round %d)" % (when, ctx.t))
            if len(lv) - 1 > st.max_depth:
                st.max_depth = len(lv) - 1

    def begin(self, ctx):
        self._check(ctx, "after construction")

    def after_pull(self, ctx):
        if ctx.judging and ctx.round_calls():
            self._check(ctx, "after pull")

    def after_round(self, ctx):
        if ctx.judging:
            self._check(ctx, "after receive_reward")
            n = len(ctx.round_calls())
            if n:
                ctx.extra["stats"].bump("expansions", n)
                if any(not c["newlayer"] for c in ctx.round_calls()):
                    ctx.extra["stats"].bump("expansions_below_deepest")


class TilingOracle(Oracle):
    """C02 inside algorithm runs: each split exact, leaves tile the domain."""

    name = "C02"

    def after_round(self, ctx):
        if not ctx.judging:
            return
        calls = ctx.round_calls()
        for c in calls:
            check_split(ctx.cfg["part"], ctx.cfg.get("K"), c["parent"], c["children"], "(round %d)" % ctx.t)
        if calls:
            for P in {id(c["partition"]): c["partition"] for c in calls}.values():
                check_tiling(P, "(round %d)" % ctx.t)
            ctx.extra["stats"].bump("expansions", len(calls))

    def end(self, ctx):
        for P in partitions_of(ctx.algo):
            check_tiling(P, "(end of run)", pairwise_max=150)

    def begin(self, ctx):
        for c in ctx.rec.calls:
            check_split(ctx.cfg["part"], ctx.cfg.get("K"), c["parent"], c["children"], "(construction)")


class DomainUntouchedOracle(Oracle):
    """Third clause of C14, free on every execution: the user's domain object is not modified."""

    name = "C14.domain"

    def begin(self, ctx):
        self.before = copy.deepcopy(ctx.cfg["domain"])
        self._cmp(ctx)

    def _cmp(self, ctx):
        if ctx.domain != self.before:
            raise Violation("C14.domain", "the domain object passed by the user was modified: %r -> %r"
                            % (self.before, ctx.domain))

    def after_round(self, ctx):
        if ctx.judging:
            self._cmp(ctx)

"""C04 oracle: the harness ledger of (cell -> rewards) under the crediting rule of the
statement, compared after every round with the counters held by the reachable tree."""
import math

import numpy as np

from . import adapters
from .adapters import close, kind_of, read_cell
from .core import HarnessError, Violation
from .observe import cell_id, reachable
from .world import Oracle


# ------------------------------------------------------------------ recording learners
class LearnerLog:
    def __init__(self):
        self.instances = []
        self.events = []
        self.phase = "init"


CURRENT = LearnerLog()
_REC_CLASSES = {}


def recording_classes():
    """Recording subclasses of the base learners keeping the original __name__ (POO/GPO
    dispatch on the name)."""
    from . import configs

    if _REC_CLASSES:
        return _REC_CLASSES
    for name in ("T_HOO", "HCT", "VHCT"):
        base = configs.ALGOS[name]

        def make(base):
            class R(base):
                def __init__(self, *a, **k):
                    super().__init__(*a, **k)
                    self._xmc_id = len(CURRENT.instances)
                    CURRENT.instances.append(self)
                    self._xmc_kwargs = dict(k)
                    CURRENT.events.append(("new", self._xmc_id, CURRENT.phase, dict(k)))

                def pull(self, time):
                    x = super().pull(time)
                    CURRENT.events.append(("pull", self._xmc_id, CURRENT.phase, x))
                    return x

                def receive_reward(self, time, reward):
                    try:
                        cells = adapters.credited_cells(self)
                    except HarnessError:
                        raise
                    except Exception as e:  # noqa: harness code must not look like a crash of the code under check
                        raise HarnessError("cannot observe the cell a learner handed out: %s: %s" % (type(e).__name__, e))
                    super().receive_reward(time, reward)
                    CURRENT.events.append(("reward", self._xmc_id, CURRENT.phase, reward, cells))

                def get_last_point(self):
                    old = CURRENT.phase
                    CURRENT.phase = "query"
                    try:
                        return super().get_last_point()
                    finally:
                        CURRENT.phase = old

            R.__name__ = base.__name__
            R.__qualname__ = base.__qualname__
            return R

        _REC_CLASSES[name] = make(base)
    return _REC_CLASSES


def reset_log():
    CURRENT.instances = []
    CURRENT.events = []
    CURRENT.phase = "init"
    return CURRENT


# ------------------------------------------------------------------ unit ledger
class UnitLedger:
    """Ledger of one tree-owning algorithm object."""

    def __init__(self, algo):
        self.algo = algo
        self.kind = kind_of(algo)
        self.cells = {}  # id(node) -> [node, count, rewards]
        self.rounds = 0
        self.default_single = None

    def credit(self, cells, r):
        for c in cells:
            e = self.cells.get(id(c))
            if e is None:
                e = self.cells[id(c)] = [c, 0, []]
            e[1] += 1
            e[2].append(r)
        self.rounds += 1

    def reset_lists(self, cells):
        for c in cells:
            e = self.cells.get(id(c))
            if e is not None:
                e[2] = []

    def compare(self, where):
        algo = self.algo
        kind = self.kind
        P = algo.partition
        levels = reachable(P)
        reach = {}
        for lvl in levels:
            for n in lvl:
                reach[id(n)] = n
        for nid, (node, cnt, rew) in self.cells.items():
            if cnt > 0 and nid not in reach:
                raise Violation("C04.lost", "cell %r holding %d recorded reward(s) is no longer reachable from the root: "
                                "evidence lost %s" % (cell_id(node), cnt, where))
        total = 0
        for nid, node in reach.items():
            st = read_cell(kind, node)
            e = self.cells.get(nid)
            cnt = e[1] if e else 0
            rew = e[2] if e else []
            cid = cell_id(node)
            if kind in ("SOO", "DOO"):
                if cnt == 0:
                    if self.default_single is None:
                        self.default_single = type(node)(0, 1, None, [[0.0, 1.0]]).get_reward()
                    # a cell handed out whose reward has not arrived yet is 'visited' but unevaluated
                    if not _same(st.single, self.default_single):
                        raise Violation("C04.extra", "cell %r never received a reward but records %r %s" % (cid, st.single, where))
                else:
                    if not _same(st.single, rew[-1]):
                        raise Violation("C04.value", "cell %r records reward %r, the history gave it %r %s" % (cid, st.single, rew, where))
                    if st.count != 1:
                        raise Violation("C04.count", "cell %r was evaluated but is not marked visited %s" % (cid, where))
                total += cnt
                continue
            if st.count != cnt:
                raise Violation("C04.count", "cell %r has visit count %r, the history credits it %d time(s) %s"
                                % (cid, st.count, cnt, where))
            if not _same_multiset(st.rewards, rew):
                raise Violation("C04.list", "cell %r holds rewards %r, the history gives %r %s" % (cid, st.rewards[:8], rew[:8], where))
            scale = max((abs(x) for x in rew), default=0.0)
            if st.mean is not None and rew:
                # (the mean of an empty history is not defined by the statement: 0, nan or anything else)
                want = sum(rew) / len(rew)
                if not close(st.mean, want, 1e-9, scale):
                    raise Violation("C04.mean", "cell %r has mean %r, the history gives %r %s" % (cid, st.mean, want, where))
            if st.var is not None and rew:
                m = sum(rew) / len(rew)
                want = max(sum((x - m) ** 2 for x in rew) / len(rew), 1e-3)
                # a two-pass variance (mean first, then squared deviations) is off by about (n*eps*scale)^2 + n*eps*var:
                # the allowance 1e-7*(1e-6*scale)^2 is far above that and far below a variance lost to cancellation
                if not close(st.var, want, 1e-7, (1e-6 * scale) ** 2):
                    raise Violation("C04.var", "cell %r has variance %r, the history gives %r %s" % (cid, st.var, want, where))
            total += cnt if kind != "T_HOO" else 0
        if kind == "T_HOO":
            total = read_cell(kind, P.get_root()).count
        if kind == "VROOM":
            total = None  # several cells per round: the per-cell comparison is the check
        if total is not None and total != self.rounds:
            raise Violation("C04.sum", "visit counts sum to %r after %d completed rounds %s" % (total, self.rounds, where))


def _same(a, b):
    a = float(a)
    b = float(b)
    return a == b or (a != a and b != b)


def _same_list(a, b):
    return len(a) == len(b) and all(_same(x, y) for x, y in zip(a, b))


def _same_multiset(a, b):
    """The statement speaks of the rewards recorded for a cell, not of their order."""
    return len(a) == len(b) and _same_list(sorted(map(float, a)), sorted(map(float, b)))


# ------------------------------------------------------------------ oracles
class LedgerOracle(Oracle):
    """C04 for algorithms that own their tree (everything except Zooming and the wrappers)."""

    name = "C04"

    def begin(self, ctx):
        self.unit = UnitLedger(ctx.algo)
        self.kind = kind_of(ctx.algo)
        self.validation_started = False
        self.pending = None

    def after_pull(self, ctx):
        algo = ctx.algo
        kind = self.kind
        if kind == "StroquOOL":
            if _attr(algo, "end"):
                self.pending = None  # terminated: the reward 'just passes'
                return
            cand = _attr(algo, "candidate")
            if cand and not self.validation_started:
                self.validation_started = True
                self.unit.reset_lists([c for c in cand if c is not None])
        cells = adapters.credited_cells(algo)
        cell = cells[-1] if kind != "VROOM" else cells[0]
        if ctx.judging:
            x = ctx.x
            if kind == "VROOM":
                last = cells[-1]
                if not adapters.in_box(x, last.get_domain()):
                    raise Violation("C04.point", "returned point %r is outside the last cell of the credited path %r (round %d)"
                                    % (x, last.get_domain(), ctx.t))
                for a, b in zip(cells, cells[1:]):
                    if b.get_parent() is not a:
                        raise Violation("C04.chain", "credited cells are not a parent->child chain (round %d)" % ctx.t)
                if cells[0] is not _attr(algo, "curr_node"):
                    raise Violation("C04.chain", "credited chain does not start at the drawn cell (round %d)" % ctx.t)
            elif kind == "SequOOL" and cell is algo.partition.get_root():
                pass  # schedule exhausted: the domain centre is handed out (C12)
            else:
                if list(map(float, x)) != list(map(float, cell.get_cpoint())):
                    raise Violation("C04.point", "pull returned %r but the cell recorded as handed out %r has representative %r (round %d)"
                                    % (x, cell_id(cell), cell.get_cpoint(), ctx.t))
        self.pending = cells

    def after_round(self, ctx):
        if self.pending is None:
            self.unit.rounds += 0
            return
        self.unit.credit(self.pending, ctx.r)
        self.pending = None
        if ctx.judging:
            self.unit.compare("(round %d)" % ctx.t)


def _attr(o, n):
    return adapters._attr(o, n)


class ZoomingLedgerOracle(Oracle):
    name = "C04"

    def begin(self, ctx):
        self.led = {}
        self.t = 0

    def after_pull(self, ctx):
        arm = _attr(ctx.algo, "best_arm")
        self.arm = arm
        if ctx.judging and list(map(float, arm.get_point())) != list(map(float, ctx.x)):
            raise Violation("C04.point", "pull returned %r but the arm recorded as pulled is %r" % (ctx.x, arm.get_point()))

    def after_round(self, ctx):
        algo = ctx.algo
        e = self.led.setdefault(id(self.arm), [self.arm, []])
        e[1].append(ctx.r)
        self.t += 1
        if not ctx.judging:
            return
        act = _attr(algo, "active_points")
        pt = _attr(algo, "pulled_times")
        av = _attr(algo, "average_rewards")
        ids = {id(a) for a in act}
        for aid, (arm, rew) in list(self.led.items()):
            if aid not in ids:
                # an arm object may be re-created when it is handed down to a child: the same location with the
                # same number of pulls is the same arm
                twin = [a for a in act if id(a) not in self.led and list(map(float, a.get_point())) == list(map(float, arm.get_point()))
                        and pt[a] == len(rew)]
                if twin:
                    del self.led[aid]
                    self.led[id(twin[0])] = [twin[0], rew]
                    continue
                raise Violation("C04.lost", "arm at %r with %d rewards is no longer active (round %d)" % (arm.get_point(), len(rew), ctx.t))
        tot = 0
        for arm in act:
            rew = self.led.get(id(arm), [arm, []])[1]
            if pt[arm] != len(rew):
                raise Violation("C04.count", "arm at %r has pull count %r, history credits %d (round %d)" % (arm.get_point(), pt[arm], len(rew), ctx.t))
            if rew:
                want = sum(rew) / len(rew)
                if not close(av[arm], want, 1e-9, max(abs(x) for x in rew)):
                    raise Violation("C04.mean", "arm at %r has mean %r, history gives %r (round %d)" % (arm.get_point(), av[arm], want, ctx.t))
            tot += pt[arm]
        if tot != self.t:
            raise Violation("C04.sum", "pull counts sum to %d after %d rounds" % (tot, self.t))


class WrapperLedgerOracle(Oracle):
    """C04 for POO / GPO / PCT / VPCT with recording learners: routing of each reward and
    the ledger of every learner's own tree."""

    name = "C04"

    def begin(self, ctx):
        self.log = CURRENT
        self.units = {}
        self.seen = 0
        self.val = {}  # GPO: index of validated point -> rewards
        self.kind = kind_of(ctx.algo)
        self.inner = ctx.algo.algorithm if self.kind in ("PCT", "VPCT") else ctx.algo
        self.is_gpo = kind_of(self.inner) == "GPO"
        if self.is_gpo:
            n = self.inner.rounds
            rm = self.inner.rhomax
            Dmax = math.log(2) / math.log(1 / rm)
            self.N = int(math.ceil(0.5 * Dmax * math.log((n / 2) / math.log(n / 2))))
            self.L = int(math.floor(n / (2 * self.N)))
        self.log.phase = "pull"

    def _new_events(self):
        ev = self.log.events[self.seen:]
        self.seen = len(self.log.events)
        return ev

    def after_pull(self, ctx):
        ev = [e for e in self._new_events() if e[0] in ("pull", "reward") and e[2] != "query"]
        self.pulls = [e for e in ev if e[0] == "pull"]
        if any(e[0] == "reward" for e in ev):
            raise Violation("C04.route", "a learner received a reward during pull (round %d)" % ctx.t)
        self.log.phase = "reward"
        if not ctx.judging:
            return
        if self.is_gpo:
            finished = ctx.t > 2 * self.N * self.L
            if len(self.pulls) > 1:
                raise Violation("C04.route", "%d learner pulls in one GPO round (round %d)" % (len(self.pulls), ctx.t))
            if self.pulls and finished:
                raise Violation("C04.route", "a learner was consulted after all phases are over (round %d)" % ctx.t)
        else:
            if len(self.pulls) != 1:
                raise Violation("C04.route", "POO round %d was served by %d learners" % (ctx.t, len(self.pulls)))
        if self.pulls:
            if list(map(float, self.pulls[-1][3])) != list(map(float, ctx.x)):
                raise Violation("C04.route", "wrapper returned %r, the learner proposed %r (round %d)" % (ctx.x, self.pulls[-1][3], ctx.t))

    def after_round(self, ctx):
        ev = [e for e in self._new_events() if e[0] in ("pull", "reward") and e[2] != "query"]
        self.log.phase = "pull"
        rewards = [e for e in ev if e[0] == "reward"]
        for e in rewards:
            lid = e[1]
            u = self.units.get(lid)
            if u is None:
                u = self.units[lid] = UnitLedger(self.log.instances[lid])
            u.credit(e[4], e[3])
        if self.is_gpo and not self.pulls and ctx.t <= 2 * self.N * self.L:
            V_x = _attr(self.inner, "V_x")
            if V_x:
                self.val.setdefault(len(V_x) - 1, []).append(ctx.r)
                self.val_x = V_x[-1]
        if not ctx.judging:
            return
        where = "(round %d)" % ctx.t
        if self.pulls:
            lid = self.pulls[-1][1]
            if len(rewards) != 1 or rewards[0][1] != lid:
                raise Violation("C04.route", "round %d was served by learner #%d but its reward went to learner(s) %r"
                                % (ctx.t, lid, [e[1] for e in rewards]))
            if not _same(rewards[0][3], ctx.r):
                raise Violation("C04.route", "learner #%d received %r instead of the round's reward %r" % (lid, rewards[0][3], ctx.r))
        else:
            if rewards:
                raise Violation("C04.route", "round %d consulted no learner but learner(s) %r received its reward"
                                % (ctx.t, [e[1] for e in rewards]))
            if self.is_gpo and ctx.t <= 2 * self.N * self.L:
                V_x = _attr(self.inner, "V_x")
                if not V_x or list(map(float, V_x[-1])) != list(map(float, ctx.x)):
                    raise Violation("C04.route", "validation round %d returned %r which is not the point being validated %r"
                                    % (ctx.t, ctx.x, V_x[-1] if V_x else None))
        if self.is_gpo:
            V = _attr(self.inner, "V_reward")
            for j, rew in self.val.items():
                want = sum(rew) / len(rew)
                if j >= len(V) or not close(V[j], want, 1e-9, max(abs(x) for x in rew)):
                    raise Violation("C04.score", "score of validated point #%d is %r, mean of its %d validation rewards is %r %s"
                                    % (j, V[j] if j < len(V) else None, len(rew), want, where))
        for lid, u in self.units.items():
            u.compare("(learner #%d, round %d)" % (lid, ctx.t))
        ctx.extra["stats"].bump("learner_rewards", len(rewards))

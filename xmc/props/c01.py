"""C01 — the ask/tell loop is total and every proposed point lies inside the domain."""
import copy
import math

import numpy as np

from .. import configs
from ..algorun import replay_algo, run_algo_task
from ..core import ChoiceSource, HarnessError, Violation
from ..oracles import DomainUntouchedOracle
from ..seams import ExpansionRecorder, StepBudget
from ..world import AlgoCrash, Oracle, seam, soft_violation

ID = "C01"
LEVEL = "model_checking"
RULE = ("Configuration pool = algorithm variants (14 algorithms + wrappers over each base, parameter grid inside the documented "
        "ranges) x 11 partition variants x 6 boxes (dimension 1..3); per config every reward sequence over "
        "{0,-1,0.5,1e6}^T (E-full, RNG answers with <=1 deviation) and the base scripts {zero,neg,alt,peak,negpeak,twopeak,drift} "
        "with <=k deviations up to T = budget (100..300) (E-dev); oracle after every pull / round: no exception, branch budget not "
        "exceeded, d finite floats inside the box; get_last_point() is queried on a deep copy after rounds of a sparse set "
        "and at the end.  The quick tier takes a VERIF_SEED-rotated quarter of the (box, parameter) pool; thorough takes all.  "
        "distinct_nontrivial = executions whose point sequence has >= 2 distinct points.")
ASSUMPTIONS = ["NumPy/CPython", "never-hangs is decided by counting branch/jump events (sys.monitoring) inside PyXAB code per API call, limit 5e6",
               "reward alphabet {0,-1,0.5,1e6}; magnitudes near float overflow not explored",
               "known findings (known_findings.json): POO rhomax<0.8323, VROOM on non-binary partitions, get_last_point before "
               "the first validation (StroquOOL, GPO/PCT/VPCT), GPO with floor(n/2N)=0"]
VACUITY = [("last_point_queries", "get_last_point was never queried"), ("points_checked", "no point checked")]
EXTRA = {"crashes_ok": True}

QUERY_ROUNDS = frozenset((1, 2, 3, 4, 5, 6, 8, 13, 21, 34, 55, 89))
_BUDGET = None


def budget():
    from ..world import hang_guard

    return hang_guard()


class ConstSource(ChoiceSource):
    """Answers every choice with the first (mode 0) or the last (mode -1) menu entry."""

    def __init__(self, mode):
        super().__init__()
        self.mode = mode

    def choose(self, kind, n, default=0):
        return 0 if self.mode == 0 else n - 1


def check_point(x, box, what, t):
    d = len(box)
    if not isinstance(x, (list, tuple, np.ndarray)) or len(x) != d:
        raise Violation("C01.shape", "%s returned %r, not a list of %d numbers (round %d)" % (what, x, d, t), where=what, round=t)
    for v, (lo, hi) in zip(x, box):
        try:
            f = float(v)
        except Exception:
            raise Violation("C01.shape", "%s returned a non-numeric coordinate %r (round %d)" % (what, v, t), where=what)
        if not math.isfinite(f):
            raise Violation("C01.finite", "%s returned a non-finite coordinate %r (round %d)" % (what, x, t), where=what)
        if not (lo <= f <= hi):
            raise Violation("C01.box", "%s returned %r outside the box %r (round %d)" % (what, list(map(float, x)), box, t), where=what)


class TotalityOracle(Oracle):
    name = "C01"
    wants_none = True

    def __init__(self, T, mode, final_only=False):
        self.T = T
        self.mode = mode
        self.final_only = final_only  # nested confirmation run: query the live object at the end, raise on failure

    def begin(self, ctx):
        self.box = [(float(lo), float(hi)) for lo, hi in ctx.cfg["domain"]]
        budget().reset()

    def after_pull(self, ctx):
        budget().reset()
        if ctx.judging:
            check_point(ctx.x, self.box, "pull", ctx.t)
            ctx.extra["stats"].bump("points_checked")

    def after_round(self, ctx):
        budget().reset()
        if not ctx.judging:
            return
        t = ctx.t
        if t == self.T:
            # the loop is over: the recommendation is asked of the object itself, as the documented loop does
            self.query(ctx, live=True)
        elif self.final_only:
            return
        elif ctx.cfg["algo"] == "VROOM":
            # the tree is large and get_last_point() grows it: a deep copy only at two intermediate rounds of long runs
            if self.T > 10 and t in (5, 34):
                self.query(ctx)
        elif self.mode == "full" or t in QUERY_ROUNDS:
            self.query(ctx)

    def _ask(self, ctx, obj, mode):
        """Returns (point, None) or (None, Violation)."""
        sm = seam()
        sm.set_source(ConstSource(mode))
        try:
            x = obj.get_last_point()
        except (Violation, HarnessError):
            raise
        except StepBudget.Hang:
            return None, Violation("C01.hang", "get_last_point() after round %d did not return within the branch budget" % ctx.t,
                                   where="get_last_point")
        except Exception as e:  # noqa
            return None, Violation("C01.crash", "get_last_point() after round %d raised %s: %s" % (ctx.t, type(e).__name__, e),
                                   where="get_last_point", exc=type(e).__name__, early=self.early(ctx))
        finally:
            budget().reset()
        try:
            check_point(x, self.box, "get_last_point", ctx.t)
        except Violation as v:
            return None, v
        return x, None

    def query(self, ctx, live=False):
        """The loop may stop after any round: ask for the recommendation.  After the last round the live object
        is asked.  At intermediate rounds a deep copy is asked (so that the run is not disturbed); a failure of the
        copy is only reported if a separate execution that stops at this round fails on its live object too (an
        implementation may legitimately keep state that does not survive copying, e.g. keyed by object identity)."""
        sm = seam()
        src = sm.src
        rec = ExpansionRecorder.ACTIVE
        st = ctx.extra["stats"]
        modes = (0, -1) if (ctx.cfg["algo"] == "VROOM" and not live) else ((-1 if ctx.t % 2 else 0),)
        try:
            for m in modes:
                ExpansionRecorder.ACTIVE = None
                obj = ctx.algo if live else copy.deepcopy(ctx.algo)
                x, v = self._ask(ctx, obj, m)
                st.bump("last_point_queries")
                if v is None:
                    continue
                if not live:
                    v = self.confirm_live(ctx, m)
                    if v is None:
                        st.bump("failures_of_the_copy_only")
                        continue
                if self.final_only or v.oracle != "C01.crash":
                    raise v
                # a crashing recommendation is recorded without aborting the execution: the loop itself goes on
                soft_violation(ctx, v)
        finally:
            sm.set_source(src)
            ExpansionRecorder.ACTIVE = rec

    def confirm_live(self, ctx, mode):
        """Separate execution of the same script, stopped at the current round, asking the live object."""
        from .. import world

        script = [p[2] for p in ctx.src.points]
        sm = seam()
        old_src, old_rec = sm.src, ExpansionRecorder.ACTIVE
        log = list(sm.choice_log)
        try:
            world.execute(ctx.cfg, script, None, -1, ctx.t, ctx.reward_fn, [TotalityOracle(ctx.t, self.mode, final_only=True)],
                          ctx.learner_classes, ctx.labels)
            return None
        except Violation as v:
            return v
        except world.AlgoCrash:
            return None  # cannot happen on a faithful replay; not this query's business
        finally:
            sm.set_source(old_src)
            sm.choice_log[:] = log
            ExpansionRecorder.ACTIVE = old_rec
            budget().reset()


def _early(algo):
    """True while no validated candidate exists yet (anchors: GPO.V_x, StroquOOL.candidate)."""
    k = type(algo).__name__
    if k in ("PCT", "VPCT"):
        algo = algo.algorithm
        k = "GPO"
    if k == "GPO":
        return len(algo.V_x) == 0
    if k == "StroquOOL":
        return not algo.candidate
    return False


TotalityOracle.early = staticmethod(lambda ctx: _early(ctx.algo))


def on_crash(crash, cfg, pts, stats):
    e = crash.exc
    if "(hang)" in str(e):
        raise Violation("C01.hang", "%s did not return within the branch budget" % crash.where, where=crash.where)
    raise Violation("C01.crash", "%s raised %s: %s" % (crash.where, type(e).__name__, e), where=crash.where,
                    exc=type(e).__name__, traceback=crash.tb[-600:], round=(crash.t or 0))


# ----------------------------------------------------------------------------- pool
def param_grid():
    g = []
    for (nu, rho, n) in ((1, 0.5, 100), (0.01, 0.5, 100), (5, 0.3, 1000), (0.1, 0.9, 100)):
        g.append(("T_HOO", "T_HOO", dict(nu=nu, rho=rho, rounds=n)))
    for (nu, rho, c, de) in ((1, 0.5, 0.1, 0.01), (2, 0.9, 0.5, 0.1), (0.5, 0.7, 1, 0.5)):
        g.append(("HCT", "HCT", dict(nu=nu, rho=rho, c=c, delta=de)))
        g.append(("VHCT", "VHCT", dict(nu=nu, rho=rho, c=c, delta=de, bound=1)))
    g.append(("VHCT", "VHCT", dict(nu=1, rho=0.5, c=0.1, delta=0.01, bound=0.5)))
    for base in configs.TREE_BANDITS:
        for rm in (0.9, 0.95, 0.84, 0.5, 0.1):
            g.append(("POO_" + base, "POO", dict(numax=1, rhomax=rm, rounds=100, base=base)))
        for rm, n in ((0.9, 100), (0.5, 100), (0.1, 100), (0.99, 100), (0.9, 200), (0.7, 150)):
            g.append(("GPO_" + base, "GPO", dict(numax=1.0, rhomax=rm, rounds=n, base=base)))
    for a in ("PCT", "VPCT"):
        for rm in (0.9, 0.5):
            g.append((a, a, dict(numax=1, rhomax=rm, rounds=100)))
    g.append(("DOO", "DOO", dict(n=100)))
    g.append(("DOO_user", "DOO", dict(n=100, delta=["pow", 1.0, 0.5])))
    g.append(("DOO_user", "DOO", dict(n=100, delta=["pow", 14.0, 0.9])))
    g.append(("SOO", "SOO", dict(n=100, h_max=100)))
    g.append(("SOO", "SOO", dict(n=100, h_max=200)))
    for k in (None, 1, 3):
        g.append(("StoSOO", "StoSOO", dict(n=100, k=k, h_max=100)))
    g.append(("StoSOO", "StoSOO", dict(n=100, k=2, h_max=100, delta=0.5)))
    g.append(("StoSOO", "StoSOO", dict(n=300, k=2, h_max=300)))
    for n in (100, 150):
        g.append(("SequOOL", "SequOOL", dict(n=n)))
    for n in (100, 1000):
        g.append(("StroquOOL", "StroquOOL", dict(n=n)))
    for (n, hm) in ((100, 3), (100, 6), (100, 100), (128, 8)):
        g.append(("VROOM", "VROOM", dict(n=n, h_max=hm, b=1, f_max=1)))
    for (nu, rho) in ((1, 0.9), (2, 0.5), (0.5, 0.7)):
        g.append(("Zooming", "Zooming", dict(nu=nu, rho=rho)))
    return g


def tasks(tier, seed):
    ts = []
    grid = param_grid()
    boxes = sorted(configs.BOXES)
    n = 0
    for gi, (label, algo, params) in enumerate(grid):
        for pi, (part, K) in enumerate(configs.PART_VARIANTS):
            for bi, bname in enumerate(boxes):
                n += 1
                in_slice = ((gi + pi + bi + seed) % 4 == 0)
                if tier == "quick" and not in_slice:
                    continue
                cfg = configs.cfg(algo, part, K, configs.BOXES[bname], **params)
                lab = "%s/%s%s/%s/%d" % (label, part, K or "", bname, gi)
                vroom = algo == "VROOM"
                heavy = vroom or algo in configs.WRAPPERS
                Rq = [0.0, -1.0, 1e6] if tier == "quick" else list(configs.R4)
                ar = configs.arity(part, K, len(configs.BOXES[bname]))
                if vroom and ar > 2 and (ar > 4 or params["h_max"] != 6 or tier == "quick" and bname not in ("u1", "u2")):
                    # VROOM on non-binary partitions is finding D8; it is kept in the pool on the small
                    # arities (3, 4) only: the constructor builds arity^6 cells
                    continue
                if vroom:
                    # (a) every answer of the internal sampling (cell index, directions, fractions), one reward value
                    if tier == "thorough" or len(configs.BOXES[bname]) <= 2:
                        for Tv in ((1,) if tier == "quick" else (1, 2)):
                            ts.append({"kind": "algo", "label": "full/" + lab + "/rng%d" % Tv, "cfg": cfg, "mode": "full",
                                       "T": Tv, "R": [0.5], "rng_k": 1, "cost": 30 * Tv,
                                       "max_exec": 3000 if tier == "quick" else 40000})
                    # (b) every reward sequence, default sampling answers
                    for Tv in ((1, 2) if tier == "quick" else (1, 2, 3)):
                        ts.append({"kind": "algo", "label": "full/" + lab + "/rew%d" % Tv, "cfg": cfg, "mode": "full",
                                   "T": Tv, "R": Rq, "rng_k": 0, "cost": 1})
                else:
                    ts.append({"kind": "algo", "label": "full/" + lab, "cfg": cfg, "mode": "full",
                               "T": 3 if tier == "quick" else 4, "R": Rq, "rng_k": 1,
                               "max_exec": 3000 if tier == "quick" else 8000})
                bases = ("twopeak", "neg", "drift") if tier == "quick" else ("zero", "neg", "alt", "peak", "negpeak", "twopeak", "drift")
                for b in bases:
                    ts.append({"kind": "algo", "label": "base/%s/%s" % (lab, b), "cfg": cfg, "mode": "dev", "T": min(300, configs.budget_of(cfg) or 100),
                               "R": list(configs.R4), "base": b, "k": 0})
                core = (part, K) in configs.PART_CORE and bname in ("u1", "mix2") and (len(configs.BOXES[bname]) > 1) == (part == "DimensionBinary")
                if core and (tier == "thorough" or not heavy):
                    ts.append({"kind": "algo", "label": "dev/" + lab, "cfg": cfg, "mode": "dev", "T": 100 if tier == "thorough" else 40,
                               "R": list(configs.R4), "base": "twopeak", "k": 1,
                               "max_exec": 800 if tier == "quick" else 20000})
    # searches driven onto a face of the box until cells are a few ulps wide (every seed: not part of the rotated pool)
    face_boxes = {"nd1": [[0.1, 0.7]], "nd9": [[0.1, 0.9]], "r512": [[-5.12, 5.12]], "c100": [[0.0, 100.0]]}
    for algo, params in (("DOO", dict(n=150)), ("SOO", dict(n=150, h_max=150)), ("SequOOL", dict(n=1000))):
        for part, K in configs.PART_VARIANTS:
            for bname in sorted(face_boxes):
                if algo == "SequOOL" and tier == "quick" and bname not in ("nd9", "r512"):
                    continue
                cfg = configs.cfg(algo, part, K, face_boxes[bname], **params)
                for b in ("rise", "fall"):
                    ts.append({"kind": "algo", "label": "face/%s/%s%s/%s/%s" % (algo, part, K or "", bname, b), "cfg": cfg, "mode": "dev",
                               "T": params["n"], "R": list(configs.R4), "base": b, "k": 0, "cost": 2 if algo != "SequOOL" else 8})
    return ts


def _mk_for(task):
    T, mode = task["T"], task["mode"]
    return lambda: [TotalityOracle(T, mode), DomainUntouchedOracle()]


def _nontrivial(ctx):
    pts = {tuple(map(float, x)) for x in ctx.points if x is not None}
    if len(pts) >= 2:
        return tuple(tuple(map(float, x)) for x in ctx.points)
    return None


def _guard(fn):
    try:
        return fn()
    except StepBudget.Hang:
        raise HarnessError("branch budget exceeded outside an API call")


def run_task(task):
    budget()
    return run_algo_task(task, _mk_for(task), nontrivial=_nontrivial, on_crash=on_crash)


def replay(task, script):
    budget()
    return replay_algo(task, script, _mk_for(task), on_crash=on_crash)


def bounds(tier):
    return {"configs": "%d parameter variants x 11 partitions x 6 boxes%s" % (len(param_grid()), " (seed-rotated quarter)" if tier == "quick" else ""),
            "full_T": 3 if tier == "quick" else 4, "full_rewards": [0.0, -1.0, 1e6] if tier == "quick" else list(configs.R4), "full_rng_deviations": 1,
            "base_scripts_T": 100, "dev_T": 40 if tier == "quick" else 100, "dev_k": 1,
            "last_point_query_rounds": sorted(QUERY_ROUNDS) + ["T"]}

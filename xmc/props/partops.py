"""E-ops on bare partitions (shared by C02 and C03 part A): every sequence of up to N
operations deepen() / make_children(leaf, newlayer = leaf at the deepest level), with the
partition's random draws answered from the script (bounded deviations)."""
import copy

from .. import configs
from ..core import ChoiceSource, HarnessError, Violation, enumerate_scripts, script_hash
from ..observe import check_split, check_tiling, check_tree_index, leaves, partition_digest
from ..seams import ExpansionRecorder
from .. import world
from ..world import Stats, seam, _jsonable

CORNER_BOXES = {
    "adjacent": [[1.0, 1.0000000000000002]],
    "adjacent2": [[1.0, 1.0000000000000004], [-5e-324, 5e-324]],
    "huge": [[1e15, 1e15 + 8.0]],
    "straddle": [[-1e-300, 1e15]],
    "mixed": [[-1e15, 1.0], [1e-12, 3e-12]],
    "tenth": [[0.1, 0.3]],
    "neg_nd": [[-0.7, -0.1], [0.1, 0.7], [-1.0 / 3.0, 2.0 / 3.0]],
}


# argument forms the documentation allows and JSON-like literals do not exercise: rows that are one shared list object
# (`[[lo, hi]] * d`, name suffix "@a") and integer bounds
FORM_BOXES = {"sq2@a": [[-1.0, 3.0], [-1.0, 3.0]], "sq3@a": [[0.5, 2.0], [0.5, 2.0], [0.5, 2.0]], "int2": [[-1, 3], [2, 4]], "int1": [[-5, 5]]}

# documented objective domains and other boxes whose end points are not dyadic (chains of splits down to cells a few ulps wide)
DIVE_BOXES = {"nd1": [[0.1, 0.7]], "nd9": [[0.1, 0.9]], "r512": [[-5.12, 5.12]], "c100": [[0.0, 100.0]], "tenth": [[0.1, 0.3]],
              "mix2": [[-2.0, 6.0], [0.25, 0.5]], "neg_nd": [[-0.7, -0.1], [0.1, 0.7], [-1.0 / 3.0, 2.0 / 3.0]]}

DEEPEN_MAX = 9
LEAF_MENU = 16  # at most this many leaf positions are offered (first 8 and last 8 in level order)


def _leaf_menu(lv):
    if len(lv) <= LEAF_MENU:
        return lv
    return lv[: LEAF_MENU // 2] + lv[-LEAF_MENU // 2:]


def run_script(task, script, expect=None, changed=-1, stats=None, seen=None):
    """One execution.  Returns (points, violation_dict_or_None)."""
    which = task["oracles"]  # subset of {"C02","C03"}
    sm = seam()
    src = ChoiceSource(script, expect)
    sm.set_source(src)
    dom = configs.user_domain(task["domain"], task.get("alias_rows"))
    dom_before = copy.deepcopy(dom)
    pc = configs.part_class(task["part"], task.get("K"))
    rec = ExpansionRecorder()
    viol = None
    try:
        rec.activate()
        P = pc(domain=dom)
        if "C03" in which:
            check_tree_index(P, "after construction")
        trail = []
        prev_d = None
        for step in range(task["N"]):
            pos0 = src.pos
            if world._GUARD:
                world._GUARD.reset()  # the branch budget is per operation (a worker may have installed the guard earlier)
            lv = _leaf_menu(leaves(P))
            # deepen() is offered while the deepest layer is small (bounds the tree size)
            can_deepen = len(P.get_node_list()[P.get_depth()]) <= DEEPEN_MAX
            a = src.choose("op", 1 + len(lv)) if can_deepen else 1 + src.choose("op", len(lv))
            mark = len(rec.calls)
            if a == 0:
                P.deepen()
                trail.append("deepen")
            else:
                leaf = lv[a - 1]
                P.make_children(leaf, newlayer=(leaf.get_depth() >= P.get_depth()))
                trail.append("mc(%d,%d)" % (leaf.get_depth(), leaf.get_index()))
            judging = src.pos > changed
            where = "after ops %s" % ",".join(trail)
            if judging:
                if "C02" in which:
                    for c in rec.calls[mark:]:
                        check_split(task["part"], task.get("K"), c["parent"], c["children"], where)
                    check_tiling(P, where)
                if "C03" in which:
                    check_tree_index(P, where)
                if stats is not None:
                    d = hash((task["_h"], partition_digest(P)))
                    stats.states.add(d)
                    # edge = (source state, answers of this operation, target state); the source state of the first
                    # judged step of an execution is identified by the script prefix that reaches it
                    srcs = prev_d if prev_d is not None else hash((task["_h"], "prefix", tuple(p[2] for p in src.points[:pos0])))
                    stats.transitions.add(hash((srcs, tuple(p[2] for p in src.points[pos0:]), d)))
                    prev_d = d
                    stats.judged_rounds += 1
                    stats.bump("expansions", len(rec.calls) - mark)
                    if a == 0:
                        stats.bump("deepen_ops")
                    elif lv[a - 1].get_depth() < P.get_depth() - 1 or not rec.calls[-1]["newlayer"]:
                        stats.bump("make_children_below_deepest")
                    if P.get_depth() > stats.max_depth:
                        stats.max_depth = P.get_depth()
                    if seen is not None:
                        # canonical-state de-duplication: a state already explored with at least as
                        # many operations left and no more RNG deviations used has the same futures
                        used = sum(1 for p in src.points if p[2] != 0 and p[0] != "op")
                        # deepen() walks node_list[depth] in list order and the rotated randint menu assigns split
                        # dimensions along it: the order inside each level is part of the state
                        order = tuple(tuple(n.get_index() for n in lvl) for lvl in P.get_node_list())
                        key = (d, used, hash(order))
                        remaining = task["N"] - step - 1
                        if seen.get(key, -1) >= remaining:
                            stats.bump("pruned_duplicate_states")
                            break
                        seen[key] = remaining
        if dom != dom_before and "C02" in which:
            raise Violation("C02.input", "the domain list passed by the user was modified: %r -> %r" % (dom_before, dom))
        if stats is not None:
            stats.nontrivial.add(hash((task["_h"], partition_digest(P))))
            stats.outcomes.add(hash((task["_h"], tuple(trail))))
    except Violation as v:
        viol = {"config": {"part": task["part"], "K": task.get("K"), "domain": task["domain"], "algo": None, "params": {}},
                "script": [p[2] for p in src.points], "oracle": v.oracle, "message": v.message,
                "details": _jsonable(v.details), "task": task, "T": task["N"]}
    except HarnessError:
        raise
    except Exception as e:  # the partition itself crashed
        import traceback

        viol = {"config": {"part": task["part"], "K": task.get("K"), "domain": task["domain"], "algo": None, "params": {}},
                "script": [p[2] for p in src.points], "oracle": "%s.crash" % sorted(which)[0],
                "message": "partition operation raised %s: %s" % (type(e).__name__, e),
                "details": {"traceback": traceback.format_exc()[-800:]}, "task": task, "T": task["N"]}
    return src.points, viol


def run_task(task):
    st = Stats()
    task = dict(task)
    task["_h"] = hash(script_hash({k: v for k, v in task.items() if k != "_h"}))

    seen = {}

    def run(script, expect, changed):
        if len(st.violations) >= 2:
            raise _Stop()
        pts, viol = run_script(task, script, expect, changed, st, seen)
        st.executions += 1
        if viol:
            viol["task"] = {k: v for k, v in task.items() if k != "_h"}
            st.violations.append(viol)
        if len(st.samples) < 2 and st.executions % 211 == 1:
            st.samples.append({"partition": task["part"], "K": task.get("K"), "domain": task["domain"],
                               "script": [p[2] for p in pts], "kinds": [p[0] for p in pts]})
        for p in pts:
            st.choice_kinds[p[0]] = st.choice_kinds.get(p[0], 0) + 1
        return pts

    try:
        import time as _t

        dl = (_t.time() + task["time_cap"]) if task.get("time_cap") else None
        if task.get("deadline_abs"):
            dl = min(dl, task["deadline_abs"]) if dl else task["deadline_abs"]
        n, ex = enumerate_scripts(run, budget_kinds={"randint", "uniform"}, k=task["k"], max_exec=task.get("max_exec"), deadline=dl)
    except _Stop:
        ex = False
    if not ex:
        st.exhaustive = False
        st.caps.append({"task": task.get("label"), "executions_done": st.executions, "cap": "max_exec/time_cap"})
    return st


class _Stop(Exception):
    pass


def replay(task, script):
    task = dict(task)
    task["_h"] = 0
    pts, viol = run_script(task, script)
    return [viol] if viol else []


DIVE_PATTERNS = ("last", "first", "alternate", "second")


def dive_tasks(tier, boxes, oracles, depth=None):
    """E-dive: one root-to-leaf chain of make_children per descent pattern down to a depth far beyond what deepen() or a
    bounded run reaches (cell indices beyond 2^64, cells a few ulps wide)."""
    depth = depth or (70 if tier == "quick" else 140)
    ts = []
    for part, K in configs.PART_VARIANTS:
        for bname, box in boxes:
            ts.append({"kind": "dive", "label": "dive/%s%s/%s" % (part, K or "", bname), "part": part, "K": K, "domain": box,
                       "N": depth, "oracles": list(oracles), "cost": 2})
    return ts


def _dive_child(pattern, step, n):
    if pattern == "last":
        return n - 1
    if pattern == "first":
        return 0
    if pattern == "alternate":
        return (n - 1) if step % 2 else 0
    return min(1, n - 1)


def run_dive(task, only=None):
    st = Stats()
    h = hash(script_hash({k: v for k, v in task.items() if k != "_h"}))
    sm = seam()
    pc = configs.part_class(task["part"], task.get("K"))
    for pi, pattern in enumerate(DIVE_PATTERNS):
        if only is not None and pi != only:
            continue
        src = ChoiceSource([])
        sm.set_source(src)
        rec = ExpansionRecorder()
        rec.activate()
        P = pc(domain=configs.user_domain(task["domain"], task.get("alias_rows")))
        node = P.get_root()
        viol = None
        step = 0
        try:
            for step in range(task["N"]):
                if world._GUARD:
                    world._GUARD.reset()
                P.make_children(node, newlayer=True)
                ch = node.get_children()
                where = "after a chain of %d expansions (pattern '%s')" % (step + 1, pattern)
                if "C03" in task["oracles"]:
                    check_tree_index(P, where)
                if "C02" in task["oracles"]:
                    check_split(task["part"], task.get("K"), node, ch, where)
                node = ch[_dive_child(pattern, step, len(ch))]
                st.states.add(hash((h, pattern, step)))
                st.transitions.add(hash((h, pattern, step, "t")))
                st.judged_rounds += 1
                st.bump("expansions")
                st.bump("dive_expansions")
            st.nontrivial.add(hash((h, pattern)))
        except Violation as v:
            viol = {"oracle": v.oracle, "message": v.message, "details": _jsonable(v.details)}
        except HarnessError:
            raise
        except Exception as e:  # noqa
            viol = {"oracle": "%s.crash" % sorted(task["oracles"])[0], "message": "partition operation raised %s: %s after %d chained expansions"
                    % (type(e).__name__, e, step), "details": {}}
        if P.get_depth() > st.max_depth:
            st.max_depth = P.get_depth()
        st.executions += 1
        st.outcomes.add(hash((h, pattern, P.get_depth())))
        if viol:
            viol.update({"config": {"part": task["part"], "K": task.get("K"), "domain": task["domain"], "algo": None, "params": {}},
                         "script": [pi], "task": {k: v for k, v in task.items() if k != "_h"}, "T": task["N"]})
            st.violations.append(viol)
    return st


def replay_dive(task, script):
    st = run_dive(task, only=script[0] if script else None)
    return st.violations[:1]


def ops_tasks(tier, boxes, oracles, corner=False):
    """The E-ops task list shared by C02 and C03 part A."""
    ts = []
    for part, K in configs.PART_VARIANTS:
        for bname, box in boxes:
            d = len(box)
            ar = configs.arity(part, K, d)
            rng = d > 1 and part != "DimensionBinary" or "Random" in part
            if ar <= 3 and d == 1 and "Random" not in part:
                n = 5
            elif part == "RandomKary" and ar >= 4:
                n = 3
            else:
                n = 4
            k = 1 if rng else 0
            if tier == "thorough":
                n += 1
                k = 2 if rng else 0
            ts.append({"kind": "ops", "label": "ops/%s%s/%s" % (part, K or "", bname), "part": part, "K": K,
                       "domain": box, "N": n, "k": k, "oracles": list(oracles), "alias_rows": bname.endswith("@a"),
                       "max_exec": 150000 if tier == "quick" else 1500000})
    return ts

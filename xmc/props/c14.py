"""C14 — runs are reproducible, instances are isolated, user inputs are not mutated."""
import copy
import itertools
import json
import os
import subprocess
import sys

import numpy as np

from .. import configs
from ..core import ChoiceSource, HarnessError, Violation, enumerate_scripts, script_hash
from ..observe import algo_digest
from ..seams import ExpansionRecorder
from .. import world
from ..world import Stats, _jsonable, seam

ID = "C14"
LEVEL = "model_checking"
RULE = ("(a) every algorithm variant x {Binary 1-D, RandomBinary 2-D, RandomKary(3) 1-D} x real NumPy seeds x every reward script in "
        "{0,1}^T and a 40-round script with rewards computed from the point: the run is executed twice in-process and once in a second process started with a different PYTHONHASHSEED, a "
        "different random.seed and a shifted fake clock; point sequences and recommendations must be identical; in the first process two unrelated instances are run to completion beforehand, the second process starts pristine.  (b) every ordered "
        "pair of RNG-free algorithm variants (all but VROOM; incl. two instances of one class) on RNG-free partitions: ALL "
        "interleavings of the half-steps (pull / receive_reward) of two independently constructed instances (on differently placed boxes), 2 rounds each, x every "
        "reward assignment in {0,1}^4, plus round-granular interleavings of 3 rounds each; each instance must produce the points and "
        "the recommendation it produces alone.  (c) the domain object passed in is deep-compared before/after every execution.  "
        "distinct_nontrivial = distinct (pair, interleaving, rewards) executions whose two traces differ from each other.")
ASSUMPTIONS = ["part (b) uses partitions that make no random draw (asserted: any draw is a harness error)",
               "the second process of part (a) shares the machine's NumPy/CPython", "solo traces are computed by the same code on fresh objects"]
EXTRA = {"flaky_is_violation": True}
VACUITY = [("interleavings", "no interleaving explored"), ("second_process_traces", "no trace compared across processes")]


def _variants():
    return [(l, a, p) for (l, a, p) in configs.all_algo_variants(100)]


# ----------------------------------------------------------------------------- part (a)
def run_real(cfg, rewards, seed, pyseed=0):
    """One run on the real NumPy generator; `pyseed` seeds Python's own `random` (must not matter)."""
    import random

    np.random.seed(seed)
    random.seed(pyseed)
    algo, dom = configs.build(cfg)
    before = copy.deepcopy(cfg["domain"])
    pts = []
    lo, hi = cfg["domain"][0]
    for t, r in enumerate(rewards, 1):
        x = algo.pull(t)
        pts.append(None if x is None else [float(v) for v in x])
        if r == "peak":  # reward as a function of the normalised first coordinate
            r = -abs((float(x[0]) - lo) / (hi - lo) - 0.3) if x is not None else 0.0
        algo.receive_reward(t, r)
    try:
        rec = algo.get_last_point()
        rec = None if rec is None else [float(v) for v in rec]
    except Exception as e:  # noqa
        rec = "raises %s" % type(e).__name__
    return {"points": pts, "rec": rec, "domain_ok": dom == before}


class _SeamOff:
    def __enter__(self):
        from .. import world

        self.sm = world._SEAM
        if self.sm is not None:
            self.sm.__exit__(None, None, None)
        self.rec = ExpansionRecorder.ACTIVE
        ExpansionRecorder.ACTIVE = None
        self.state = np.random.get_state()

    def __exit__(self, *a):
        np.random.set_state(self.state)
        if self.sm is not None:
            self.sm.__enter__()
        ExpansionRecorder.ACTIVE = self.rec
        return False


def _repro_task(task):
    st = Stats()
    cfg = task["cfg"]
    T = task["T"]
    jobs = []
    with _SeamOff():
        # an earlier, unrelated instance lives and dies first in this process (the second process starts
        # pristine): sequential composition is the simplest interleaving of two instances
        try:
            run_real(cfg, [1.0, -1.0, 0.5, 1.0, -1.0, 0.5, 0.25, 1.0], 424242, pyseed=5)
            # the same class on a differently placed and scaled box, long enough to build a deep tree
            moved = dict(cfg, domain=[[10.0 * lo - 3.0, 10.0 * hi - 3.0] for lo, hi in cfg["domain"]])
            run_real(moved, ["peak"] * 40, 414141, pyseed=7)
            other = dict(cfg, algo="HCT", params=configs.default_params("HCT")) if cfg["algo"] != "HCT" else \
                dict(cfg, algo="T_HOO", params=configs.default_params("T_HOO"))
            run_real(other, [0.5, -1.0, 1.0, 0.25, 0.5, -1.0], 434343, pyseed=6)
            st.bump("polluter_runs", 3)
        except Exception:  # noqa
            pass
        scripts = list(itertools.product((0.0, 1.0), repeat=T)) + [("peak",) * 40] + [tuple(x) for x in task.get("extra_scripts", [])]
        for seed in task["seeds"]:
            for rew in scripts:
                try:
                    a = run_real(cfg, rew, seed, pyseed=1)
                    b = run_real(cfg, rew, seed, pyseed=2)
                except Exception as e:  # noqa: a crash is C01's business
                    st.bump("crashed_executions")
                    continue
                st.executions += 2
                key = hash((script_hash(cfg), seed, rew))
                st.states.add(hash((key, json.dumps(a["points"]))))
                st.transitions.add(key)
                st.outcomes.add(hash(json.dumps(a["points"])))
                if len({tuple(p) for p in a["points"] if p}) >= 2:
                    st.nontrivial.add(key)
                if not a["domain_ok"]:
                    st.violations.append(_v(task, "C14.domain", "the domain object passed by the user was modified", seed, rew))
                if a != b:
                    st.violations.append(_v(task, "C14.repro", "two in-process runs with the same NumPy seed (different random.seed) differ: %r vs %r" % (a, b), seed, rew))
                jobs.append((seed, list(rew), a))
                if len(st.violations) >= 3:
                    break
    # second process: different hash seed, different random.seed, shifted fake clock
    if jobs and not st.violations:
        env = dict(os.environ)
        env["PYTHONHASHSEED"] = str(1 + (task["seeds"][0] + 17) % 1000)
        env["XMC_FAKE_CLOCK"] = "86400.5"
        payload = json.dumps({"cfg": cfg, "jobs": [(s, r) for s, r, _ in jobs]})
        p = subprocess.run([sys.executable, "-W", "ignore", "-m", "xmc.props.c14_child"], input=payload.encode(), env=env,
                           cwd=os.path.dirname(os.path.dirname(os.path.dirname(os.path.abspath(__file__)))), capture_output=True, timeout=600)
        if p.returncode != 0:
            raise HarnessError("second process failed: %s" % p.stderr.decode()[-400:])
        res = json.loads(p.stdout.decode())
        for (seed, rew, a), b in zip(jobs, res):
            st.bump("second_process_traces")
            if a["points"] != b["points"] or a["rec"] != b["rec"]:
                st.violations.append(_v(task, "C14.repro", "a second process (other hash seed / random seed / clock) produced a different run: "
                                        "%r vs %r" % (a, b), seed, rew))
                break
    if len(st.samples) < 1 and jobs:
        st.samples.append({"config": cfg, "seed": jobs[0][0], "rewards": jobs[0][1], "points": jobs[0][2]["points"]})
    return st


def _v(task, oracle, msg, seed, rew):
    return {"config": task["cfg"], "script": [int(seed)] + [x if isinstance(x, str) else int(x) for x in rew], "oracle": oracle, "message": msg[:600], "details": {},
            "task": task, "T": len(rew)}


# ----------------------------------------------------------------------------- part (b)
class _NoRng(ChoiceSource):
    pass


def _solo_point(cache, cfg, key, rewards, want_rec=False):
    """Point proposed at round len(rewards)+1 by a fresh instance fed `rewards` (or its recommendation)."""
    k = (key, tuple(rewards), want_rec)
    if k in cache:
        return cache[k]
    algo, dom = configs.build(cfg)
    for t, r in enumerate(rewards, 1):
        algo.pull(t)
        algo.receive_reward(t, r)
    if want_rec:
        try:
            x = algo.get_last_point()
        except Exception as e:  # noqa
            x = "raises %s" % type(e).__name__
    else:
        x = algo.pull(len(rewards) + 1)
    x = x if isinstance(x, str) or x is None else [float(v) for v in x]
    cache[k] = x
    return x


def _inter_task(task):
    st = Stats()
    cfgA, cfgB = task["cfgA"], task["cfgB"]
    n = task["n"]
    half = task["half"]
    R = (0.0, 1.0)
    cache = {}
    sm = seam()
    th = hash(script_hash([cfgA, cfgB, n, half]))

    def run(script, expect, changed):
        if len(st.violations) >= 2:
            raise _Stop()
        src = ChoiceSource(script, expect)
        sm.set_source(src)
        ExpansionRecorder.ACTIVE = None
        viol = None
        try:
            A, domA = configs.build(cfgA)
            B, domB = configs.build(cfgB)
            insts = [[A, cfgA, "A", [], [], 0, domA], [B, cfgB, "B", [], [], 0, domB]]  # algo,cfg,key,points,rewards,halfsteps,dom
            order = []
            while True:
                live = [i for i in (0, 1) if insts[i][5] < 2 * n]
                if not live:
                    break
                i = live[src.choose("sched", 2)] if len(live) == 2 else live[0]
                inst = insts[i]
                t = inst[5] // 2 + 1

                def do_pull():
                    if world._GUARD:
                        world._GUARD.reset()
                    x = inst[0].pull(t)
                    x = None if x is None else [float(v) for v in x]
                    want = _solo_point(cache, inst[1], inst[2], inst[4])
                    inst[3].append(x)
                    if x != want:
                        raise Violation("C14.isolation", "instance %s (%s) proposes %r at its round %d when interleaved (%s) but %r when run alone"
                                        % (inst[2], inst[1]["algo"], x, t, "".join(order), want))

                def do_reward():
                    r = R[src.choose("reward", len(R))]
                    inst[0].receive_reward(t, r)
                    inst[4].append(r)

                if half:
                    if inst[5] % 2 == 0:
                        do_pull()
                        order.append(inst[2].lower())
                    else:
                        do_reward()
                        order.append(inst[2])
                    inst[5] += 1
                else:
                    do_pull()
                    do_reward()
                    order.append(inst[2])
                    inst[5] += 2
            for inst in insts:
                try:
                    rec = inst[0].get_last_point()
                    rec = None if rec is None else [float(v) for v in rec]
                except Exception as e:  # noqa
                    rec = "raises %s" % type(e).__name__
                want = _solo_point(cache, inst[1], inst[2], inst[4], want_rec=True)
                if rec != want:
                    raise Violation("C14.isolation", "instance %s (%s) recommends %r after the interleaving %s but %r when run alone"
                                    % (inst[2], inst[1]["algo"], rec, "".join(order), want))
                if inst[6] != inst[1]["domain"]:
                    raise Violation("C14.domain", "the domain object passed to instance %s was modified" % inst[2])
            if any(p[0] not in ("sched", "reward") for p in src.points):
                raise HarnessError("part (b) configuration made a random draw: not RNG-free")
            st.bump("interleavings")
            key = hash((th, tuple(order), tuple(insts[0][4]), tuple(insts[1][4])))
            st.states.add(hash((key, json.dumps(insts[0][3]), json.dumps(insts[1][3]))))
            st.transitions.add(key)
            st.outcomes.add(hash((th, json.dumps(insts[0][3]), json.dumps(insts[1][3]))))
            if insts[0][3] != insts[1][3]:
                st.nontrivial.add(key)
            if len(st.samples) < 1 and st.executions % 50 == 7:
                st.samples.append({"A": cfgA, "B": cfgB, "order": "".join(order), "rewards_A": insts[0][4], "rewards_B": insts[1][4],
                                   "points_A": insts[0][3], "points_B": insts[1][3]})
        except Violation as v:
            viol = v
        except HarnessError:
            raise
        except Exception as e:  # crash: C01's business
            st.bump("crashed_executions")
        st.executions += 1
        if viol is not None:
            st.violations.append({"config": cfgA, "script": [p[2] for p in src.points], "oracle": viol.oracle, "message": viol.message,
                                  "details": {"B": _jsonable(cfgB)}, "task": task, "T": n})
        return src.points

    try:
        import time as _t

        dl = (_t.time() + task["time_cap"]) if task.get("time_cap") else None
        if task.get("deadline_abs"):
            dl = min(dl, task["deadline_abs"]) if dl else task["deadline_abs"]
        _, ex = enumerate_scripts(run, deadline=dl)
    except _Stop:
        ex = False
    st.exhaustive = ex
    return st


class _Stop(Exception):
    pass


# ----------------------------------------------------------------------------- interface
def tasks(tier, seed):
    ts = []
    S = 4 if tier == "quick" else 16
    seeds = [seed * 100 + s for s in range(S)]
    for label, algo, params in _variants():
        for part, K, box in (("Binary", None, "u1"), ("RandomBinary", None, "u2"), ("RandomKary", 3, "u1")):
            if algo == "VROOM":
                if K == 3:
                    continue
                params = dict(params, n=16, h_max=6)
            cfg = configs.cfg(algo, part, K, configs.BOXES[box], **params)
            ts.append({"kind": "repro", "label": "repro/%s/%s" % (label, part), "cfg": cfg, "T": 5 if tier == "quick" else 6, "seeds": seeds, "cost": 2})
    # schedule-driven algorithms with budgets large enough to reach their later phases (validation of several
    # candidates, all GPO phases): long scripts with tied and with point-dependent rewards
    for algo, params, L in (("StroquOOL", dict(n=1000), 130), ("StroquOOL", dict(n=600), 90), ("SequOOL", dict(n=100), 100),
                            ("GPO", dict(numax=1.0, rhomax=0.9, rounds=100, base="HCT"), 100)):
        for part, K, box in (("Binary", None, "u1"), ("RandomBinary", None, "u2")):
            cfg = configs.cfg(algo, part, K, configs.BOXES[box], **params)
            ts.append({"kind": "repro", "label": "reprolong/%s%s/%s" % (algo, params.get("n", ""), part), "cfg": cfg, "T": 1, "seeds": seeds[:2],
                       "extra_scripts": [[0.5] * L, ["peak"] * L, [1.0, -1.0] * (L // 2)], "cost": 4})
    free = [(l, a, p) for (l, a, p) in _variants() if a != "VROOM"]
    parts = [("DimensionBinary", None, "u2"), ("Binary", None, "u1"), ("Kary", 3, "u1")]
    for i, (la, aa, pa) in enumerate(free):
        for j, (lb, ab, pb) in enumerate(free):
            if j < i:
                continue
            part, K, box = parts[(i + j + seed) % 3] if tier == "quick" else parts[0]
            plist = [parts[(i + j + seed) % 3]] if tier == "quick" else parts
            for part, K, box in plist:
                cfgA = configs.cfg(aa, part, K, configs.BOXES[box], **pa)
                # B lives on a differently placed / scaled box of the same dimension
                cfgB = configs.cfg(ab, part, K, configs.BOXES["neg1" if box == "u1" else "mix2"], **pb)
                ts.append({"kind": "inter", "label": "inter/%s+%s/%s/half" % (la, lb, part), "cfgA": cfgA, "cfgB": cfgB, "n": 2, "half": True, "cost": 3})
                ts.append({"kind": "inter", "label": "inter/%s+%s/%s/round" % (la, lb, part), "cfgA": cfgA, "cfgB": cfgB,
                           "n": 3 if tier == "quick" else 4, "half": False, "cost": 3})
    return ts


def run_task(task):
    if task["kind"] == "repro":
        return _repro_task(task)
    return _inter_task(task)


def replay(task, script):
    if task["kind"] == "repro":
        seed, rew = script[0], [x if isinstance(x, str) else float(x) for x in script[1:]]
        with _SeamOff():
            a = run_real(task["cfg"], rew, seed, pyseed=1)
            b = run_real(task["cfg"], rew, seed, pyseed=2)
        if a != b:
            return [{"oracle": "C14.repro", "message": "two in-process runs differ: %r vs %r" % (a, b), "details": {}}]
        if not a["domain_ok"]:
            return [{"oracle": "C14.domain", "message": "domain modified", "details": {}}]
        st = _repro_task(dict(task, seeds=[seed]))
        return [{"oracle": v["oracle"], "message": v["message"], "details": {}} for v in st.violations[:1]]
    st = Stats()
    t = dict(task)
    res = _inter_task(t)
    return [{"oracle": v["oracle"], "message": v["message"], "details": {}} for v in res.violations[:1]]


def bounds(tier):
    return {"repro_T": 5 if tier == "quick" else 6, "repro_seeds": 4 if tier == "quick" else 16, "interleaving_half_steps": "2 rounds each (70 interleavings x 16 reward assignments)",
            "interleaving_rounds": "%d rounds each" % (3 if tier == "quick" else 4), "pairs": "all unordered pairs of the %d RNG-free variants incl. same class" % len([1 for (l, a, p) in _variants() if a != "VROOM"])}

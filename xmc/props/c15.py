"""C15 — anytime algorithms ignore the time argument and tolerate recommendation queries."""
from .. import configs
from ..algorun import replay_algo, run_algo_task
from ..shadow import Shadow, ShadowOracle

ID = "C15"
LEVEL = "model_checking"
RULE = ("(a) {T_HOO,HCT,VHCT,Zooming,POO x3,GPO x3,PCT,VPCT,DOO,SOO,SequOOL,VROOM} x {Binary 1-D, DimensionBinary 2-D, Kary(3) 1-D}: every "
        "reward sequence in {0,1,-1}^T (RNG answers with <= 1 deviation where the configuration draws) run in lock-step with shadow "
        "instances that differ only in the time labels (t0+i for t0 in {0,17}, 2i, i^2; the reference uses 1+i): identical point "
        "sequences and recommendations.  (b) {T_HOO,HCT,VHCT,Zooming,POO x3}: the same with a shadow on which get_last_point() is "
        "called 0, 1 or 2 times after every round (every placement enumerated as a choice point): identical points in those rounds and in a 6-round continuation.  distinct_nontrivial = executions with >= 2 distinct points.")
ASSUMPTIONS = ["the shadow receives the reference run's RNG answers in order; a different question is reported as divergence",
               "StoSOO and StroquOOL are outside the statement (they are documented to use the time argument)"]
VACUITY = [("shadow_pulls", "no shadow pull compared"), ("inserted_queries", "no get_last_point() query inserted")]

LABELS = {"t0=0": lambda t: t - 1, "t0=17": lambda t: t + 16, "2i": lambda t: 2 * t, "i^2": lambda t: t * t}
ANYTIME = ("T_HOO", "HCT", "VHCT", "Zooming", "POO")
LISTED = ("T_HOO", "HCT", "VHCT", "Zooming", "POO", "GPO", "PCT", "VPCT", "DOO", "SOO", "SequOOL", "VROOM")


def _cfgs():
    out = []
    for label, algo, params in configs.all_algo_variants(100):
        if algo not in LISTED:
            continue
        for part, K, box in (("Binary", None, "u1"), ("DimensionBinary", None, "u2"), ("Kary", 3, "u1")):
            if algo == "VROOM":
                if configs.arity(part, K, len(configs.BOXES[box])) != 2:
                    continue
                params = dict(params, n=8, h_max=4)
            out.append((label, configs.cfg(algo, part, K, configs.BOXES[box], **params)))
    return out


def tasks(tier, seed):
    ts = []
    for label, cfg in _cfgs():
        wrapper = cfg["algo"] in configs.WRAPPERS
        vroom = cfg["algo"] == "VROOM"
        T = (3 if vroom else (6 if wrapper else 7)) if tier == "quick" else (4 if vroom else (8 if wrapper else 9))
        lab = "%s/%s" % (label, cfg["part"])
        ts.append({"kind": "labels", "label": "labels/" + lab, "cfg": cfg, "mode": "full", "T": T, "R": list(configs.R3),
                   "rng_k": 1 if vroom else None, "cost": 3})
        ts.append({"kind": "labels", "label": "labelsdev/" + lab, "cfg": cfg, "mode": "dev", "T": 8 if vroom else (60 if tier == "quick" else 100),
                   "R": list(configs.R2), "base": "twopeak", "k": 0 if tier == "quick" else 1, "cost": 3})
        if cfg["algo"] in ANYTIME:
            Tq = 4 if tier == "quick" else 7
            ts.append({"kind": "queries", "label": "queries/" + lab, "cfg": cfg, "mode": "full", "T": Tq + 6, "free_after": Tq, "Tq": Tq,
                       "R": list(configs.R2), "cost": 6})
            # long runs: a query (once or twice) after any ONE round of a 60-round run, or a reward departure (E-dev, k = 1), and the
            # fixed plans "a query after every round / every 7th round" over 150 rounds of noisy rewards
            Tl = 60 if tier == "quick" else 100
            for base in ("noisy", "twopeak"):
                ts.append({"kind": "queries", "label": "queriesdev/%s/%s" % (lab, base), "cfg": cfg, "mode": "dev", "T": Tl, "Tq": Tl, "R": list(configs.R2),
                           "base": base, "k": 1 if tier == "quick" else 2, "cost": 12, "max_exec": 40000})
                for m in (1, 7):
                    ts.append({"kind": "queries", "label": "queriesplan%d/%s/%s" % (m, lab, base), "cfg": cfg, "mode": "dev", "T": 150 if not wrapper else 100,
                               "Tq": ("every", m), "R": list(configs.R2), "base": base, "k": 0, "cost": 2})
    return ts


def _mk_for(task):
    if task["kind"] == "labels":
        def shadows(ctx):
            return [Shadow(n, ctx.cfg, label=f) for n, f in LABELS.items()]

        return lambda: [ShadowOracle("C15", shadows)]

    def shadows_q(ctx):
        tq = task["Tq"]
        return [Shadow("queries inserted", ctx.cfg, queries=tuple(tq) if isinstance(tq, (list, tuple)) else tq)]

    return lambda: [ShadowOracle("C15", shadows_q, compare_state=False)]


def _nontrivial(ctx):
    pts = {tuple(map(float, x)) for x in ctx.points if x is not None}
    if len(pts) >= 2:
        return tuple(tuple(map(float, x)) for x in ctx.points) + tuple(p[2] for p in ctx.src.points if p[0] == "query")
    return None


def run_task(task):
    return run_algo_task(task, _mk_for(task), nontrivial=_nontrivial)


def replay(task, script):
    return replay_algo(task, script, _mk_for(task))


def bounds(tier):
    return {"labels_full_T": "7 (6 wrappers, 3 VROOM)" if tier == "quick" else "9 (8, 4)", "label_schemes": ["1+i (reference)"] + list(LABELS),
            "queries_T": 4 if tier == "quick" else 7, "queries_per_round": [0, 1, 2], "rewards": list(configs.R3)}

"""C09 — GPO/PCT/VPCT run the published schedule of base learners and validation."""
from .. import configs
from ..algorun import bystander_tasks, replay_algo, run_algo_task
from ..ledger import recording_classes
from ..refs.wrappers import GpoOracle, gpo_N, stub_classes

ID = "C09"
LEVEL = "model_checking"
RULE = ("E-sched: every integer budget n in [100,600] (thorough: to 2000) x rho_max in {0.1,0.3,0.5,0.7,0.84,0.9,0.95,0.99} x nu_max in "
        "{0.5,1} x base name in {T_HOO,HCT,VHCT} with recording stub learners (the schedule is reward-independent), driven for n+3 "
        "rounds; plus real learners (GPO x3, PCT, VPCT) under every reward sequence of the first rounds and scripts within k deviations "
        "over n=100 rounds.  Every learner construction, pull, reward delivery, validation score and the final recommendation are "
        "compared with the model of GPO.png.  distinct_nontrivial = distinct (n, rho_max, base) schedules / executions completing >= 1 phase.")
ASSUMPTIONS = ["configurations with floor(n/2N) = 0 are counted and skipped (finding D11 of C01)",
               "stub learners keep the class names GPO dispatches on; PCT/VPCT are reached by rebinding HCT/VHCT in their module for the construction"]
VACUITY = [("phases_completed", "no phase completed"), ("finished_rounds", "the end of the schedule was never reached"),
           ("validation_rounds", "no validation round")]
RHOS = (0.1, 0.3, 0.5, 0.7, 0.84, 0.9, 0.95, 0.99)


def tasks(tier, seed):
    ts = []
    hi = 600 if tier == "quick" else 2000
    bases = configs.TREE_BANDITS
    chunk = 25
    for bi, base in enumerate(bases):
        for numax in (0.5, 1.0):
            for lo in range(100, hi + 1, chunk):
                ns = [n for n in range(lo, min(lo + chunk, hi + 1))]
                if tier == "quick":
                    # each n is covered for one (base, nu_max) combination chosen by n and the seed; thorough covers all
                    ns = [n for n in ns if (n + seed) % 6 == bi * 2 + (0 if numax == 0.5 else 1)]
                if ns:
                    ts.append({"kind": "sched", "label": "sched/%s/%s/%d" % (base, numax, lo), "base": base, "numax": numax, "ns": ns, "cost": 3})
    for label, algo, params in configs.all_algo_variants(100):
        if algo not in ("GPO", "PCT", "VPCT"):
            continue
        for part, K, box in (("Binary", None, "u1"), ("Kary", 3, "u1"), ("DimensionBinary", None, "u2")):
            if tier == "quick" and part != "Binary" and algo == "GPO":
                continue
            cfg = configs.cfg(algo, part, K, configs.BOXES[box], **params)
            ts.append({"kind": "algo", "label": "full/%s/%s" % (label, part), "cfg": cfg, "mode": "full", "T": 7 if tier == "quick" else 9,
                       "R": list(configs.R3), "cost": 5})
            ts += bystander_tasks("%s/%s" % (label, part), configs.shifted(cfg), [1.0, -1.0], T_long=103, T_short=16, bases=("twopeak", "negpeak"),
                                  k=1 if tier == "quick" else 2)
            for base in ("twopeak", "negpeak"):
                ts.append({"kind": "algo", "label": "dev/%s/%s/%s" % (label, part, base), "cfg": cfg, "mode": "dev", "T": 103, "R": [1.0, -1.0],
                           "base": base, "k": 1 if tier == "quick" else 2, "cost": 20, "max_exec": 1000 if tier == "quick" else 30000})
    return ts


def _mk():
    return [GpoOracle()]


def _nontrivial(ctx):
    if ctx.t >= 10:
        return (ctx.cfg["params"].get("rounds"), ctx.cfg["params"].get("rhomax"), ctx.cfg["params"].get("base"), tuple(ctx.rewards[:12]))
    return None


def _sched_task(task):
    from ..world import Stats

    import time as _t

    st = Stats()
    for n in task["ns"]:
        if task.get("deadline_abs") and _t.time() > task["deadline_abs"]:
            st.exhaustive = False
            st.caps.append({"task": task["label"], "cap": "wall-clock budget", "first_n_not_run": n})
            break
        for rm in RHOS:
            N = gpo_N(n, rm)
            if n // (2 * N) == 0:
                st.bump("skipped_floor_zero")
                continue
            cfg = configs.cfg("GPO", "Binary", None, configs.BOXES["u1"], numax=task["numax"], rhomax=rm, rounds=n, base=task["base"])
            # two reward scripts: alternating signs, and all-negative rewards that depend on the proposed point
            for base in ("alt", "negpeak"):
                t = {"cfg": cfg, "mode": "dev", "T": n + 3, "R": [1.0], "base": base, "k": 0, "label": task["label"]}
                run_algo_task(t, _mk, nontrivial=lambda ctx: (ctx.cfg["params"]["rounds"], ctx.cfg["params"]["rhomax"]),
                              learner_classes=stub_classes, stats=st, digest=(n % 50 == 0))
            st.bump("schedules")
    for v in st.violations:
        v["task"] = dict(v["task"], stub=True)
    return st


def run_task(task):
    if task["kind"] == "sched":
        return _sched_task(task)
    return run_algo_task(task, _mk, nontrivial=_nontrivial, learner_classes=recording_classes)


def replay(task, script):
    lc = stub_classes if task.get("stub") else recording_classes
    return replay_algo(task, script, _mk, learner_classes=lc)


def bounds(tier):
    return {"sched_n": [100, 600 if tier == "quick" else 2000], "rho_max": list(RHOS), "nu_max": [0.5, 1.0],
            "quick_slice": "each n with one (base, nu_max) combination rotated by VERIF_SEED" if tier == "quick" else "all combinations",
            "real_learners": "E-full T=%d over {0,1,-1}, E-dev T=103" % (7 if tier == "quick" else 9)}

"""C03 — partition tree and per-depth node index stay mutually consistent."""
from .. import configs
from ..algorun import replay_algo, run_algo_task
from ..oracles import TreeIndexOracle
from ..world import QueryAfterRound
from . import partops

ID = "C03"
LEVEL = "model_checking"
RULE = ("Part A: every sequence of up to N operations deepen()/make_children(leaf, newlayer = leaf at deepest level) on "
        "each of the 11 partition variants, RNG answers deviating from the default in <= k places, plus (E-dive) root-to-leaf chains of 70 (thorough 140) "
        "expansions along 4 descent patterns (cell indices beyond 2^64) in dimension 1..3; part B: every reward "
        "sequence in R^T (E-full) and every script within k deviations of a base script (E-dev) for every tree-building "
        "algorithm; get_last_point() may be called after any round (a choice point; <= 1-2 per run); the index/tree invariant is evaluated after every operation / round.  distinct_nontrivial = distinct "
        "final tree states (part A) or executions with at least one expansion below the deepest level or >= 2 expansions (part B).")
ASSUMPTIONS = ["NumPy arithmetic", "the partition's public getters report its real state",
               "bounds: operation sequences up to N, reward alphabets and horizons as listed in coverage.bounds"]
VACUITY = [("expansions", "no expansion was ever observed"),
           ("make_children_below_deepest", "no make_children on a cell above the deepest level was explored")]


def _algo_cfgs():
    out = []
    for label, algo, params in configs.all_algo_variants(100):
        for part, K, box in (("Binary", None, "u1"), ("Binary", None, "u2"), ("DimensionBinary", None, "u2"),
                             ("Kary", 3, "u1")):
            if algo == "VROOM":
                if configs.arity(part, K, len(configs.BOXES[box])) != 2:
                    continue
                params = dict(params, n=8, h_max=4)
            out.append((label, configs.cfg(algo, part, K, configs.BOXES[box], **params)))
    return out


def tasks(tier, seed):
    ts = []
    boxes = ("u1", "u2") if tier == "quick" else ("u1", "u2", "mix2", "u3")
    ts += partops.ops_tasks(tier, [(b, configs.BOXES[b]) for b in boxes], ["C03"])
    ts += partops.dive_tasks(tier, [(b, configs.BOXES[b]) for b in ("u1", "u2", "u3")], ["C03"])
    for label, cfg in _algo_cfgs():
        vroom = cfg["algo"] == "VROOM"
        T = 6 if tier == "quick" else 8
        ts.append({"kind": "algo", "label": "full/%s/%s" % (label, cfg["part"]), "cfg": cfg, "mode": "full", "T": T,
                   "R": list(configs.R2), "query_k": 1 if tier == "quick" else 2})
        for base in (("peak", "zero") if tier == "quick" else ("peak", "zero", "alt", "twopeak")):
            ts.append({"kind": "algo", "label": "dev/%s/%s/%s" % (label, cfg["part"], base), "cfg": cfg, "mode": "dev",
                       "T": 8 if vroom else (40 if tier == "quick" else 100), "R": list(configs.R3), "base": base,
                       "k": 1 if tier == "quick" else (1 if vroom else 2),
                       "max_exec": 3000 if tier == "quick" else 60000})
    # long runs on boxes with non-dyadic end points (rounded midpoints; cells reached only after a hundred expansions)
    T = 250 if tier == "quick" else 600
    variants = [(l, a, p) for l, a, p in configs.all_algo_variants(T) if a not in ("VROOM",) and a not in configs.WRAPPERS]
    variants += [("Zooming_nu5", "Zooming", dict(nu=5, rho=0.7)), ("Zooming_nu8", "Zooming", dict(nu=8, rho=0.5))]
    for label, algo, params in variants:
        for part, K, d in (("Binary", None, 1), ("DimensionBinary", None, 2), ("Kary", 4, 1), ("Binary", None, 2)):
            cfg = configs.cfg(algo, part, K, configs.ND_BOXES[d], **params)
            for base in ("twopeak", "bigpeak"):
                ts.append({"kind": "algo", "label": "long/%s/%s%s/%dd/%s" % (label, part, K or "", d, base), "cfg": cfg, "mode": "dev", "T": T,
                           "R": list(configs.R2), "base": base, "k": 0, "cost": 3})
    # StroquOOL: one budget per value of h_max (1..8), whole run on three reward scripts (k=0: one execution each)
    for n in (100, 185, 326, 482, 649, 826, 1011, 1203):
        for base in ("peak", "zero", "alt"):
            cfg = configs.cfg("StroquOOL", "Binary", None, configs.BOXES["u1"], n=n)
            ts.append({"kind": "algo", "label": "base/StroquOOL%d/%s" % (n, base), "cfg": cfg, "mode": "dev", "T": min(n, 450),
                       "R": list(configs.R2), "base": base, "k": 0, "cost": 2})
    # schedule-driven algorithms reach other phases only with larger budgets
    for n in (600, 1000):
        for part, K, box in (("Binary", None, "u1"), ("Kary", 3, "u1")):
            cfg = configs.cfg("StroquOOL", part, K, configs.BOXES[box], n=n)
            ts.append({"kind": "algo", "label": "dev/StroquOOL%d/%s" % (n, part), "cfg": cfg, "mode": "dev", "T": 60 if tier == "quick" else 100,
                       "R": list(configs.R3), "base": "peak", "k": 1, "max_exec": 3000 if tier == "quick" else 60000})
    return ts


def _mk():
    # get_last_point() is part of "any algorithm run": it may be called after any round (choice point, budgeted)
    return [QueryAfterRound(), TreeIndexOracle()]


def _nontrivial(ctx):
    calls = ctx.rec.calls
    if len(calls) >= 2:
        return tuple((c["depth_before"], c["parent"].get_index(), c["newlayer"]) for c in calls)
    return None


def run_task(task):
    if task["kind"] == "ops":
        return partops.run_task(task)
    if task["kind"] == "dive":
        return partops.run_dive(task)
    st = run_algo_task(task, _mk, nontrivial=_nontrivial)
    if st.counters.get("expansions_below_deepest"):
        st.bump("make_children_below_deepest", st.counters["expansions_below_deepest"])
    return st


def replay(task, script):
    if task["kind"] == "ops":
        return partops.replay(task, script)
    if task["kind"] == "dive":
        return partops.replay_dive(task, script)
    return replay_algo(task, script, _mk)


def bounds(tier):
    return {"dive_depth": 70 if tier == "quick" else 140, "part_A_ops_N": "3..5 by arity" if tier == "quick" else "4..6 by arity", "part_A_rng_deviations": 1 if tier == "quick" else 2,
            "part_B_full_T": 6 if tier == "quick" else 8, "part_B_full_rewards": list(configs.R2),
            "part_B_dev_T": 40 if tier == "quick" else 100, "part_B_dev_k": 1 if tier == "quick" else 2,
            "partitions": [list(p) for p in configs.PART_VARIANTS]}

"""C06 — tree bandits grow only at the pulled leaf, under the published rule."""
from .. import configs
from ..algorun import replay_algo, run_algo_task
from ..refs.tree_bandits import TreeBanditOracle
from . import c05

ID = "C06"
LEVEL = "model_checking"
RULE = ("Same execution space as C05 ({T_HOO,HCT,VHCT} x 4 partitions x parameter grid; E-full over R^T and E-dev(T=70,k)); after "
        "every round the make_children calls recorded for that round are judged: at most one, under the pulled cell, only if it "
        "was a leaf, new cells fresh (T=0, U=B=inf), and it happens exactly when the published rule says so (T-HOO: depth <= "
        "ceil((ln n/2 - ln 1/nu)/ln 1/rho); HCT/VHCT: leaf and T >= tau).  distinct_nontrivial = executions with an expansion below depth 0.")
ASSUMPTIONS = ["rounds in which the admissible readings (delta~ of t or t+1, VHCT variance before/after the update, ceil() within 1e-9 "
               "of an integer) disagree are counted as ambiguous and not judged", "c1*delta <= 1/2 alphabets only"]
VACUITY = [("growth_checks", "no round judged"), ("expansions", "no expansion observed")]


def tasks(tier, seed):
    return c05.tasks(tier, seed, "C06")


def _mk():
    return [TreeBanditOracle("C06")]


def _mkq():
    from ..world import QueryAfterRound

    return [QueryAfterRound(), TreeBanditOracle("C06")]


def run_task(task):
    return run_algo_task(task, _mkq if task.get("query") else _mk, nontrivial=c05._nontrivial)


def replay(task, script):
    return replay_algo(task, script, _mkq if task.get("query") else _mk)


bounds = c05.bounds

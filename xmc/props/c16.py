"""C16 — algorithms see the domain only through the partition (affine equivariance)."""
import copy

from .. import configs
from ..algorun import replay_algo, run_algo_task
from ..shadow import Shadow, ShadowOracle
from ..world import seam

ID = "C16"
LEVEL = "model_checking"
RULE = ("All algorithm variants x 11 partition variants x boxes {[0,1], [0,1]^2, [-2,6]x[0.25,0.5]}: every reward sequence in {0,1,-1}^T "
        "(RNG answers: every split dimension / dyadic split fraction / sampled cell with <= 1 deviation, answered as fractions of the "
        "interval so that the random partitions are driven equivariantly) run in lock-step with shadow instances on affine images of "
        "the box: exact maps x+1, x-8, x+0.25, 2x, x/2, 4x, 2x+2, x+2^20 and, in dimension >= 2, the per-axis translation x+(16,-4,2) (bit-exact comparison where the partition arithmetic is dyadic, 1e-9 "
        "otherwise) and the inexact maps 3x, x+0.1 (1e-9; not for default-delta DOO, and for Zooming only on Binary/DimensionBinary where arm and face are the same floating-point expression).  "
        "DOO with its default diameter function is shadowed by translations only.  The quick tier takes a VERIF_SEED-rotated third of "
        "the configurations for the E-full part and every configuration for the long runs.  distinct_nontrivial = executions with >= 2 distinct points.")
ASSUMPTIONS = ["the large translation x+2^20 is judged only while the reference run's points have at most 28 fractional bits, the small translations while they have at most 44 (beyond that the image is not exactly representable)", "split fractions restricted to the dyadic menu {1/4 (default), 0, 1/2, 1-2^-20} so that exact maps stay exact",
               "the shadow receives the reference run's RNG answers in order", "tolerance 1e-9 (relative, floor 1) for non-dyadic arithmetic"]
VACUITY = [("shadow_pulls", "no shadow pull compared"), ("recommendations_compared", "no recommendation compared")]
DYADIC = (0.25, 0.0, 0.5, 1.0 - 2.0 ** -20)

EXACT_MAPS = {"x+1": (1.0, 1.0), "x-8": (1.0, -8.0), "x+0.25": (1.0, 0.25), "2x": (2.0, 0.0), "x/2": (0.5, 0.0), "4x": (4.0, 0.0),
              "2x+2": (2.0, 2.0), "x+2^20": (1.0, 1048576.0)}
INEXACT_MAPS = {"3x": (3.0, 0.0), "x+0.1": (1.0, 0.1)}
# a translation that moves every axis by a different (dyadic, hence exact) amount
AXIS_SHIFT = (16.0, -4.0, 2.0)


def _cfgs():
    out = []
    variants = configs.all_algo_variants(100) + [("Zooming_r", "Zooming", dict(nu=8, rho=0.5)), ("Zooming_r2", "Zooming", dict(nu=3, rho=0.7))]
    for label, algo, params in variants:
        for part, K in configs.PART_VARIANTS:
            for box in ("u1", "u2", "mix2"):
                if algo == "VROOM":
                    if configs.arity(part, K, len(configs.BOXES[box])) != 2:
                        continue
                    params = dict(params, n=8, h_max=4)
                out.append((label, configs.cfg(algo, part, K, configs.BOXES[box], **params)))
    return out


def tasks(tier, seed):
    ts = []
    for i, (label, cfg) in enumerate(_cfgs()):
        wrapper = cfg["algo"] in configs.WRAPPERS
        vroom = cfg["algo"] == "VROOM"
        rng = vroom or "Random" in cfg["part"] or (len(cfg["domain"]) > 1 and cfg["part"] != "DimensionBinary")
        lab = "%s/%s%s/%dd%s" % (label, cfg["part"], cfg["K"] or "", len(cfg["domain"]), "m" if cfg["domain"][0][0] < 0 else "")
        maps = (i + seed) % 7 if tier == "quick" else None
        if not vroom:
            # a long run on continuous rewards (a function of the normalised coordinate, hence identical for the images);
            # with k=0 this is one execution, so the quick tier runs it for EVERY configuration
            ts.append({"kind": "algo", "label": "dev/" + lab, "cfg": cfg, "mode": "dev", "T": 40 if tier == "quick" else 100,
                       "R": list(configs.R2), "base": "peak", "k": 0 if tier == "quick" else 1, "cost": 1, "maps": maps, "max_exec": 3000})
        if tier == "quick" and (i + seed) % 3:
            continue
        T = (3 if (vroom or (wrapper and rng)) else (4 if (wrapper or rng) else 5)) if tier == "quick" else (4 if vroom else (6 if wrapper else 7))
        ts.append({"kind": "algo", "label": lab, "cfg": cfg, "mode": "full", "T": T, "R": list(configs.R3), "rng_k": 1 if rng else None,
                   "cost": 2 + 3 * wrapper + 2 * rng, "maps": maps, "max_exec": 6000 if tier == "quick" else 100000})
    # VROOM descending far below float resolution of the box (depth bound 56 / 55): cells collapse to single floats at a depth
    # that depends on the absolute coordinates; all maps, sampler answers with <= 1 departure
    for n, hm in ((56, 100), (120, 55)):
        for part, K, box in (("Binary", None, "u1"), ("Binary", None, "mix2"), ("RandomBinary", None, "u1"), ("Kary", 2, "nd1")):
            cfg = configs.cfg("VROOM", part, K, configs.BOXES[box], n=n, h_max=hm, b=1, f_max=1)
            ts.append({"kind": "algo", "label": "deep/VROOM%d/%s/%s" % (n, part, box), "cfg": cfg, "mode": "dev", "T": 12 if tier == "quick" else 25,
                       "R": list(configs.R2), "base": "twopeak", "k": 0 if tier == "quick" else 1, "cost": 3, "maps": None, "max_exec": 4000})
    return ts


def _mk_for(task):
    cfg = task["cfg"]
    algo = cfg["algo"]
    dyadic_part = cfg["part"] in ("Binary", "DimensionBinary", "RandomBinary") or (cfg["K"] in (2, 4))
    default_doo = algo == "DOO" and cfg["params"].get("delta") is None
    coord_sensitive = algo == "Zooming" or default_doo

    rot = task.get("maps")
    names = sorted(EXACT_MAPS)
    # quick tier: three of the exact maps plus the large translation x+2^20 and one inexact map per configuration (rotated); thorough: all
    keep = set(names) if rot is None else ({names[(rot + j * 2) % len(names)] for j in range(3)} | {"x+2^20"})
    keep_in = set(INEXACT_MAPS) if rot is None else {sorted(INEXACT_MAPS)[rot % 2]}

    def shadows(ctx):
        out = []
        for name, (a, b) in EXACT_MAPS.items():
            if name not in keep:
                continue
            if default_doo and a != 1.0:
                continue
            if coord_sensitive and not dyadic_part:
                continue
            c2 = copy.deepcopy(cfg)
            c2["domain"] = [[a * lo + b, a * hi + b] for lo, hi in cfg["domain"]]
            out.append(Shadow(name, c2, fmap=(lambda x, a=a, b=b: [a * float(v) + b for v in x]), exact=dyadic_part, tol=1e-9,
                              max_frac_bits=(28 if abs(b) > 1000 else (44 if b != 0 else None))))
        if len(cfg["domain"]) > 1:
            c2 = copy.deepcopy(cfg)
            c2["domain"] = [[lo + AXIS_SHIFT[i], hi + AXIS_SHIFT[i]] for i, (lo, hi) in enumerate(cfg["domain"])]
            if not (coord_sensitive and not dyadic_part):
                out.append(Shadow("x+(16,-4,2)", c2, fmap=(lambda x: [float(v) + AXIS_SHIFT[i] for i, v in enumerate(x)]),
                                  exact=dyadic_part, tol=1e-9, max_frac_bits=44))
        # Zooming compares an arm (a cell centre) with child faces; on Binary / DimensionBinary both are the same
        # floating-point expression of the same bounds, so its decisions are rounding-independent and the inexact
        # maps can be judged too.  (Default-delta DOO stays excluded: exact ties of reward+delta may break differently.)
        zoom_ok = algo == "Zooming" and cfg["part"] in ("Binary", "DimensionBinary")
        if not coord_sensitive or zoom_ok:
            for name, (a, b) in INEXACT_MAPS.items():
                if name not in keep_in and not zoom_ok:
                    continue
                c2 = copy.deepcopy(cfg)
                c2["domain"] = [[a * lo + b, a * hi + b] for lo, hi in cfg["domain"]]
                out.append(Shadow(name, c2, fmap=(lambda x, a=a, b=b: [a * float(v) + b for v in x]), exact=False, tol=1e-9))
        return out

    return lambda: [ShadowOracle("C16", shadows)]


def _nontrivial(ctx):
    pts = {tuple(map(float, x)) for x in ctx.points if x is not None}
    if len(pts) >= 2:
        return tuple(tuple(map(float, x)) for x in ctx.points)
    return None


def run_task(task):
    sm = seam()
    old = sm.fr
    sm.fr = DYADIC
    try:
        return run_algo_task(task, _mk_for(task), nontrivial=_nontrivial)
    finally:
        sm.fr = old


def replay(task, script):
    sm = seam()
    old = sm.fr
    sm.fr = DYADIC
    try:
        return replay_algo(task, script, _mk_for(task))
    finally:
        sm.fr = old


def bounds(tier):
    return {"T": "5 (4 wrappers / random-draw configs, 3 VROOM); 3 exact + 1 inexact maps per config" if tier == "quick" else "7 (6 wrappers, 4 VROOM)", "rewards": list(configs.R3),
            "exact_maps": sorted(EXACT_MAPS), "inexact_maps": sorted(INEXACT_MAPS), "config_slice": "third" if tier == "quick" else "all", "long_runs": "base script peak, T=40, k=0" if tier == "quick" else "base script peak, T=100, k=1"}

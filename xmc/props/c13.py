"""C13 — VROOM samples cells from the rank-based distribution and points inside the cell."""
from .. import configs
from ..algorun import bystander_tasks, replay_algo, run_algo_task
from ..refs.vroom import VroomOracle
from ..world import InterposedQuery

ID = "C13"
LEVEL = "model_checking"
RULE = ("VROOM x budgets n in {4,8,16} (ranking depth 2..4) x depth cap {below, equal, above the ranking depth} x binary-child partitions "
        "{Binary (d=1,2), RandomBinary, Kary(2), RandomKary(2), DimensionBinary d=1}; rewards in {0,1} / {0,1,-1} fully enumerated for T "
        "rounds and every outcome of the internal sampling (cell index at np.random.choice, both directions at each descent step, "
        "split/uniform fractions) with <= k departures from the default answer; plus E-dev(T=n).  At each pull the probability vector "
        "intercepted at the sampler, the ranks and the drawn cell / credited path / returned point are judged.  "
        "A second family of tasks interposes get_last_point() between pull and receive_reward (choice point): the reward must still be "
        "credited along the path recorded at the pull.  distinct_nontrivial = executions in which a non-default cell was drawn.")
ASSUMPTIONS = ["np.random.choice samples according to the p it is handed (trusted): the distribution is checked as the vector given to the sampler",
               "binary-child partitions only (others are finding D8 of C01)", "tolerance 1e-9; rank ties free"]
VACUITY = [("pulls_judged", "no pull judged"), ("descents", "no descent below the drawn cell"), ("pulls_with_history", "ranks never judged on a non-empty history")]


def _cfgs(tier):
    out = []
    for n in (4, 8, 16):
        H = {4: 2, 8: 3, 16: 4}[n]
        for cap in (H - 1, H, H + 2):
            for part, K, box in (("Binary", None, "u1"), ("Binary", None, "u2"), ("RandomBinary", None, "u1"), ("Kary", 2, "u1"),
                                 ("RandomKary", 2, "u1"), ("DimensionBinary", None, "u1")):
                out.append(configs.cfg("VROOM", part, K, configs.BOXES[box], n=n, h_max=cap, b=1, f_max=1))
    return out


def tasks(tier, seed):
    ts = []
    for i, cfg in enumerate(_cfgs(tier)):
        n = cfg["params"]["n"]
        lab = "%s%s/%dd/n%d/cap%d" % (cfg["part"], cfg["K"] or "", len(cfg["domain"]), n, cfg["params"]["h_max"])
        if tier == "quick" and n == 16 and (i + seed) % 2:
            continue
        T = {4: 3, 8: 2, 16: 2}[n] if tier == "quick" else {4: 4, 8: 3, 16: 3}[n]
        rk = ({4: 2, 8: 2, 16: 1}[n]) if tier == "quick" else 2
        ts.append({"kind": "algo", "label": "full/" + lab, "cfg": cfg, "mode": "full", "T": T, "R": list(configs.R2),
                   "rng_k": rk, "cost": n, "max_exec": 60000 if tier == "quick" else 800000})
        # get_last_point() asked between pull and receive_reward (environment move, <= 1 (thorough 2) departures among RNG answers and queries)
        ts.append({"kind": "algo", "label": "fullq/" + lab, "cfg": cfg, "mode": "full", "T": T + 1, "R": list(configs.R2),
                   "query_k": 1 if tier == "quick" else 2, "interpose": True, "cost": n, "max_exec": 60000 if tier == "quick" else 800000})
        ts += bystander_tasks(lab, configs.shifted(cfg), configs.R3, T_long=n, T_short=min(n, 6), bases=("twopeak",), k=1, max_exec=60000)
        dk = 1 if (tier == "quick" or n == 16) else 2
        ts.append({"kind": "algo", "label": "dev/" + lab, "cfg": cfg, "mode": "dev", "T": n, "R": list(configs.R3), "base": "twopeak",
                   "k": dk, "cost": n, "max_exec": 60000 if tier == "quick" else 800000})
    return ts


def _mk():
    return [VroomOracle()]


def _mkq():
    return [VroomOracle(), InterposedQuery()]


def _nontrivial(ctx):
    log = ctx.seam.choice_log
    if any(e[2] != 0 for e in log):
        return tuple(e[2] for e in log) + tuple(ctx.rewards)
    return None


def run_task(task):
    return run_algo_task(task, _mkq if task.get("interpose") else _mk, nontrivial=_nontrivial)


def replay(task, script):
    return replay_algo(task, script, _mkq if task.get("interpose") else _mk)


def bounds(tier):
    return {"n": [4, 8, 16], "caps": "ranking depth -1, +0, +2", "full_T": "3,2,2" if tier == "quick" else "4,3,3", "rng_deviations": "2,2,1" if tier == "quick" else 2,
            "dev_T": "n", "dev_k": 1 if tier == "quick" else "2 (1 for n=16)"}

"""C02 — child cells exactly tile their parent cell in every partition."""
from .. import configs
from ..algorun import replay_algo, run_algo_task
from ..oracles import TilingOracle
from . import partops

ID = "C02"
LEVEL = "model_checking"
RULE = ("Every sequence of up to N operations deepen()/make_children(leaf) on the 11 partition variants x box pool "
        "(incl. floating-point corner boxes) with split dimensions / split fractions {1/2, 0 (end point), 1/3, 1-2^-20} "
        "answered from the script (<= k departures from the default answer); per expansion the exact split facts "
        "(arity, containment, bit-identical shared boundaries, parent's own outer faces, equal widths and centres against "
        "exact rational arithmetic), per state exact-rational leaf volumes and pairwise interior-disjointness.  The same "
        "oracles run inside E-full/E-dev explorations of tree-growing algorithms, and inside long runs (150, thorough 300 expansions of one "
        "partition object per variant: states reached only late).  distinct_nontrivial = distinct final trees.")
ASSUMPTIONS = ["NumPy arithmetic; np.linspace end points", "finite box alphabet (coverage.bounds.boxes): the property's "
               "'arbitrary real bounds' is decided only on these boxes", "near-overflow magnitudes (>1e300) not explored"]
VACUITY = [("expansions", "no expansion observed")]


def tasks(tier, seed):
    names = ["u1", "nd1", "u2", "mix2"] if tier == "quick" else list(configs.BOXES)
    boxes = [(b, configs.BOXES[b]) for b in names]
    corner = sorted(partops.CORNER_BOXES)
    if tier == "quick":
        # seed rotates which corner boxes the quick tier takes (thorough takes all)
        r = seed % len(corner)
        corner = (corner[r:] + corner[:r])[:4]
    boxes += [(b, partops.CORNER_BOXES[b]) for b in corner]
    boxes += sorted(partops.FORM_BOXES.items())
    ts = partops.ops_tasks(tier, boxes, ["C02"])
    ts += partops.dive_tasks(tier, sorted(partops.DIVE_BOXES.items()), ["C02"])
    for algo in ("T_HOO", "SOO", "Zooming"):
        for part, K in configs.PART_VARIANTS:
            for bname in ("sq2@a", "int2"):
                cfg = configs.cfg(algo, part, K, partops.FORM_BOXES[bname], **configs.default_params(algo, 100))
                cfg["alias_rows"] = bname.endswith("@a")
                ts.append({"kind": "algo", "label": "form/%s/%s%s/%s" % (algo, part, K or "", bname), "cfg": cfg, "mode": "dev",
                           "T": 20 if (K or 2) <= 3 else 10, "R": list(configs.R2), "base": "peak", "k": 1, "max_exec": 1500})
    for algo in ("T_HOO", "HCT", "SOO", "Zooming", "SequOOL", "DOO"):
        for part, K in configs.PART_VARIANTS:
            for box in ("nd1", "mix2"):
                params = configs.default_params(algo, 100)
                cfg = configs.cfg(algo, part, K, configs.BOXES[box], **params)
                ts.append({"kind": "algo", "label": "dev/%s/%s%s/%s" % (algo, part, K or "", box), "cfg": cfg,
                           "mode": "dev", "T": (30 if (K or 2) <= 3 else 12) if tier == "quick" else 80, "R": list(configs.R2), "base": "peak",
                           "k": 1 if tier == "quick" else 2, "max_exec": 1500 if tier == "quick" else 40000})
    # long runs: one partition object expanded 150 (thorough 300) times in a row (state reached only late in a run), default
    # answers with <= 0 (thorough 1) departures
    for algo in ("T_HOO", "SOO"):
        for part, K in configs.PART_VARIANTS:
            for box in ("nd1", "mix2"):
                if box == "mix2" and algo == "SOO":
                    continue
                T = 150 if tier == "quick" else 300
                params = configs.default_params(algo, T)
                cfg = configs.cfg(algo, part, K, configs.BOXES[box], **params)
                ts.append({"kind": "algo", "label": "long/%s/%s%s/%s" % (algo, part, K or "", box), "cfg": cfg, "mode": "dev", "T": T,
                           "R": list(configs.R2), "base": "twopeak", "k": 0 if tier == "quick" else 1, "max_exec": 400, "cost": 6})
    return ts


def _mk():
    return [TilingOracle()]


def _nontrivial(ctx):
    calls = ctx.rec.calls
    if calls:
        return tuple((c["depth_before"], c["parent"].get_index()) for c in calls)
    return None


def run_task(task):
    if task["kind"] == "ops":
        return partops.run_task(task)
    if task["kind"] == "dive":
        return partops.run_dive(task)
    return run_algo_task(task, _mk, nontrivial=_nontrivial)


def replay(task, script):
    if task["kind"] == "ops":
        return partops.replay(task, script)
    if task["kind"] == "dive":
        return partops.replay_dive(task, script)
    return replay_algo(task, script, _mk)


def bounds(tier):
    return {"ops_N": "3..5 (quick) / 4..6 (thorough) by arity", "rng_deviations_k": 1 if tier == "quick" else 2,
            "uniform_fractions": [0.5, 0.0, 1 / 3, 1 - 2 ** -20], "boxes": sorted(configs.BOXES) + sorted(partops.CORNER_BOXES),
            "deepen_offered_while_deepest_layer_at_most": partops.DEEPEN_MAX, "leaf_menu": partops.LEAF_MENU,
            "algo_runs": "E-dev(T=30|80, base=peak, k) for 6 algorithms x 11 partitions x 2 boxes"}

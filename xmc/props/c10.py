"""C10 — POO routes each round to one base learner and scores learners by true means."""
from .. import configs
from ..algorun import bystander_tasks, replay_algo, run_algo_task
from ..ledger import recording_classes
from ..refs.wrappers import PooOracle, stub_classes

ID = "C10"
LEVEL = "model_checking"
RULE = ("POO x rho_max in {0.84,0.9,0.95,0.99} x base in {T_HOO,HCT,VHCT} x {stub learners, real learners}: every reward sequence in "
        "{0,1,-1}^T (E-full), every horizon T in 2..130 with budget rounds = T (the run reaches its declared budget) and every script within k deviations of base scripts over horizons up to 400 rounds (first creation batch, "
        "round-robin passes, second and third batches).  Per round: exactly one learner pulled, the reward delivered to exactly that "
        "learner, learners only added with nu_max and a distinct grid rho in (0, rho_max), V_reward/Times equal mean/length of each "
        "learner's own reward ledger, get_last_point = next proposal of a max-score learner.  distinct_nontrivial = executions with >= 2 learners.")
ASSUMPTIONS = ["rho_max >= 0.84 (smaller values: finding D7 of C01)", "tolerance 1e-9; ties between learners free"]
VACUITY = [("scores_judged", "no score judged"), ("rounds_with_several_learners", "never more than one learner")]
RHOS = (0.84, 0.9, 0.95, 0.99)


def tasks(tier, seed):
    ts = []
    for base in configs.TREE_BANDITS:
        for rm in RHOS:
            for stub in (True, False):
                if tier == "quick" and not stub and (RHOS.index(rm) + configs.TREE_BANDITS.index(base) + seed) % 2:
                    continue
                cfg = configs.cfg("POO", "Binary", None, configs.BOXES["u1"], numax=1, rhomax=rm, rounds=1000, base=base)
                lab = "%s/%s/%s" % (base, rm, "stub" if stub else "real")
                ts.append({"kind": "algo", "label": "full/" + lab, "cfg": cfg, "mode": "full", "T": 8 if tier == "quick" else 10,
                           "R": list(configs.R3), "stub": stub, "cost": 4})
                ts += bystander_tasks(lab, configs.shifted(cfg), [1.0, -1.0], T_long=100, T_short=16, k=1 if tier == "quick" else 2, stub=stub)
                if tier == "quick":
                    T = (400 if rm == 0.9 else 150) if stub else 100
                else:
                    T = 400
                for b in (("twopeak",) if tier == "quick" else ("twopeak", "alt", "negpeak")):
                    ts.append({"kind": "algo", "label": "dev/%s/%s" % (lab, b), "cfg": cfg, "mode": "dev", "T": T, "R": [1.0, -1.0],
                               "base": b, "k": 1 if (tier == "quick" or not stub) else 2, "stub": stub, "cost": 30,
                               "max_exec": 1000 if tier == "quick" else 20000})
    # the budget is reached: rounds = T, time labels 1..T (every T in a range: E-sched over the horizon)
    for base in configs.TREE_BANDITS:
        for rm in ((0.9,) if tier == "quick" else RHOS):
            Ts = [T for T in range(2, 131) if tier == "thorough" or (T + seed) % 3 == configs.TREE_BANDITS.index(base)]
            ts.append({"kind": "horizon", "label": "horizon/%s/%s" % (base, rm), "base": base, "rm": rm, "Ts": Ts, "cost": 25})
    for part, K, box in (("Kary", 3, "u1"), ("DimensionBinary", None, "u2")):
        cfg = configs.cfg("POO", part, K, configs.BOXES[box], numax=0.5, rhomax=0.9, rounds=100, base="HCT")
        ts.append({"kind": "algo", "label": "full/HCT/%s" % part, "cfg": cfg, "mode": "full", "T": 7 if tier == "quick" else 9,
                   "R": list(configs.R3), "stub": False, "cost": 4})
    return ts


def _mk():
    return [PooOracle()]


def _nontrivial(ctx):
    from .. import ledger

    if len(ledger.CURRENT.instances) >= 2:
        return (ctx.cfg["params"]["rhomax"], ctx.cfg["params"]["base"], tuple(ctx.rewards[:16]), len(ctx.rewards))
    return None


def _horizon_task(task):
    import time as _t
    from ..world import Stats

    st = Stats()
    for T in task["Ts"]:
        if task.get("deadline_abs") and _t.time() > task["deadline_abs"]:
            st.exhaustive = False
            st.caps.append({"task": task["label"], "cap": "wall-clock budget", "first_T_not_run": T})
            break
        cfg = configs.cfg("POO", "Binary", None, configs.BOXES["u1"], numax=1, rhomax=task["rm"], rounds=T, base=task["base"])
        t = {"cfg": cfg, "mode": "dev", "T": T, "R": [1.0], "base": "twopeak", "k": 0, "label": task["label"], "stub": True}
        run_algo_task(t, _mk, nontrivial=_nontrivial, learner_classes=stub_classes, stats=st, digest=(T % 10 == 0))
        st.bump("horizons")
    for v in st.violations:
        v["task"] = dict(v["task"], stub=True, kind="algo")
    return st


def run_task(task):
    if task["kind"] == "horizon":
        return _horizon_task(task)
    return run_algo_task(task, _mk, nontrivial=_nontrivial, learner_classes=stub_classes if task.get("stub") else recording_classes)


def replay(task, script):
    return replay_algo(task, script, _mk, learner_classes=stub_classes if task.get("stub") else recording_classes)


def bounds(tier):
    return {"rho_max": list(RHOS), "full_T": 8 if tier == "quick" else 10, "dev_T": "400 (stubs, rho_max=0.9) / 150 (other stubs) / 100 (real learners)" if tier == "quick" else 400,
            "dev_k": 1 if tier == "quick" else 2}

"""C04 — every reward is credited exactly once to the cell(s) that produced the point."""
from .. import configs
from ..algorun import bystander_tasks, replay_algo, run_algo_task
from ..ledger import LedgerOracle, WrapperLedgerOracle, ZoomingLedgerOracle, recording_classes
from ..world import InterposedQuery

ID = "C04"
LEVEL = "model_checking"
RULE = ("Every reward sequence in R^T (E-full, all RNG answers or <=1 RNG deviation where noted) and every script within k "
        "deviations of base scripts over T up to 100-200 rounds (E-dev), for every algorithm x {Binary 1-D, DimensionBinary 2-D, "
        "Kary(3) 1-D}; after every round the harness ledger (cell -> rewards under the crediting rule of the statement) is "
        "compared with the counters, reward lists, means and variances of every cell reachable from the root.  "
        "A second family of tasks interposes get_last_point() between pull and receive_reward (choice point, <= 1-2 per run).  "
        "distinct_nontrivial = executions in which at least two different cells were credited.")
ASSUMPTIONS = ["NumPy arithmetic", "anchored attributes (path, curr_node, update_list, best_arm, max_b_node_*) name the handed-out "
               "cell; the returned point is checked to be that cell's representative",
               "GPO validation rounds are recognised as rounds within the published 2*N*floor(n/2N) horizon in which no learner was consulted"]
VACUITY = [("credited_rounds", "no reward was ever credited")]


def _cfgs(tier="quick"):
    out = []
    parts = [("Binary", None, "u1"), ("DimensionBinary", None, "u2"), ("Kary", 3, "u1")]
    if tier == "thorough":
        parts += [("RandomBinary", None, "u1"), ("RandomKary", 3, "mix2"), ("Kary", 4, "u3")]
    for label, algo, params in configs.all_algo_variants(100):
        for part, K, box in parts:
            if algo == "VROOM":
                if configs.arity(part, K, len(configs.BOXES[box])) != 2:
                    continue
                params = dict(params, n=8, h_max=4)
            out.append((label, configs.cfg(algo, part, K, configs.BOXES[box], **params)))
            if algo == "VROOM":
                # depth caps below the ranking depth floor(log2 n): the drawn cell may lie deeper than the cap
                for n, hm in ((8, 2), (16, 2), (16, 3)):
                    out.append(("VROOM_n%d_cap%d" % (n, hm), configs.cfg(algo, part, K, configs.BOXES[box], **dict(params, n=n, h_max=hm))))
    return out


def tasks(tier, seed):
    ts = []
    for label, cfg in _cfgs(tier):
        vroom = cfg["algo"] == "VROOM"
        wrapper = cfg["algo"] in configs.WRAPPERS
        T = (7 if tier == "quick" else 9)
        if wrapper and tier == "quick":
            T = 6
        if vroom:
            T = 3 if tier == "quick" else 4
        ts.append({"kind": "algo", "label": "full/%s/%s" % (label, cfg["part"]), "cfg": cfg, "mode": "full", "T": T,
                   "R": list(configs.R3), "rng_k": 1 if (vroom or "Random" in cfg["part"] or len(cfg["domain"]) > 2) else None})
        # the same with get_last_point() interposed between pull and receive_reward in at most one (thorough: two) rounds
        ts.append({"kind": "algo", "label": "fullq/%s/%s" % (label, cfg["part"]), "cfg": cfg, "mode": "full", "T": (3 if vroom else 5) if tier == "quick" else (4 if vroom else 7),
                   "R": list(configs.R2), "query_k": 1 if tier == "quick" else 2, "interpose": True})
        # a second instance alive next to the object under check, on a box that is not [0,1]^d
        ts += bystander_tasks("%s/%s" % (label, cfg["part"]), configs.shifted(cfg), [1.0, -1.0] if wrapper else configs.R3,
                              T_long=8 if vroom else (100 if wrapper else 60), T_short=6 if vroom else (16 if wrapper else 24),
                              k=1 if tier == "quick" else 2)
        bases = ("peak", "alt", "off8") if tier == "quick" else ("peak", "alt", "off8", "zero", "negpeak", "twopeak")
        if wrapper and tier == "quick":
            if cfg["part"] != "Binary":
                continue
            bases = ("peak",)
        gpo = cfg["algo"] in ("GPO", "PCT", "VPCT")
        for base in bases:
            if vroom:
                T = 8
            elif wrapper:
                T = 100
            else:
                T = 60 if tier == "quick" else 100  # never beyond the declared budget (StoSOO loops forever past it)
            ts.append({"kind": "algo", "label": "dev/%s/%s/%s" % (label, cfg["part"], base), "cfg": cfg, "mode": "dev",
                       "T": T, "R": [1.0, -1.0] if wrapper else list(configs.R3), "base": base,
                       "k": 1 if (tier == "quick" or vroom or wrapper) else 2,
                       "max_exec": 2500 if tier == "quick" else 50000})
    # StroquOOL: one budget per value of h_max (1..8), whole run on three reward scripts (k=0: one execution each)
    for n in (100, 185, 326, 482, 649, 826, 1011, 1203):
        for base in ("peak", "zero", "alt"):
            cfg = configs.cfg("StroquOOL", "Binary", None, configs.BOXES["u1"], n=n)
            ts.append({"kind": "algo", "label": "base/StroquOOL%d/%s" % (n, base), "cfg": cfg, "mode": "dev", "T": min(n, 450),
                       "R": list(configs.R2), "base": base, "k": 0, "cost": 2})
    for n in (600, 1000):
        cfg = configs.cfg("StroquOOL", "Binary", None, configs.BOXES["u1"], n=n)
        ts.append({"kind": "algo", "label": "dev/StroquOOL%d" % n, "cfg": cfg, "mode": "dev", "T": 60 if tier == "quick" else 100,
                   "R": list(configs.R3), "base": "peak", "k": 1, "max_exec": 3000 if tier == "quick" else 60000})
    return ts


def _mk_for(cfg, interpose=False):
    a = cfg["algo"]
    extra = [InterposedQuery] if interpose else []
    if a == "Zooming":
        return lambda: [ZoomingLedgerOracle()] + [c() for c in extra]
    if a in configs.WRAPPERS:
        return lambda: [WrapperLedgerOracle()] + [c() for c in extra]
    return lambda: [LedgerOracle()] + [c() for c in extra]


def _nontrivial(ctx):
    pts = {tuple(map(float, x)) for x in ctx.points if x is not None}
    ctx.extra["stats"].bump("credited_rounds", len(ctx.points))
    if len(pts) >= 2:
        return tuple(tuple(map(float, x)) for x in ctx.points)
    return None


def run_task(task):
    lc = recording_classes if task["cfg"]["algo"] in configs.WRAPPERS else None
    return run_algo_task(task, _mk_for(task["cfg"], task.get("interpose")), nontrivial=_nontrivial, learner_classes=lc)


def replay(task, script):
    lc = recording_classes if task["cfg"]["algo"] in configs.WRAPPERS else None
    return replay_algo(task, script, _mk_for(task["cfg"], task.get("interpose")), learner_classes=lc)


def bounds(tier):
    return {"full_T": 7 if tier == "quick" else 9, "full_rewards": list(configs.R3), "dev_T": "60..100" if tier == "quick" else "100..150",
            "dev_k": 1 if tier == "quick" else 2, "partitions": ["Binary d=1", "DimensionBinary d=2", "Kary(3) d=1"]}

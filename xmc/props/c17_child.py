"""Pristine reference values for C17's cross-object histories: a fresh process in which ONE objective class is evaluated at
the menu points and nothing else has ever been evaluated.  stdin: {"index": i, "points": [...]}; stdout: JSON list of
["v", float.hex] / ["e", exception name]."""
import json
import sys


def main():
    from xmc.props import c17
    from xmc.core import ChoiceSource
    from xmc.world import seam

    d = json.loads(sys.stdin.read())
    spec = c17._objectives()[d["index"]]
    seam().set_source(ChoiceSource([]))
    out = []
    for x in d["points"]:
        obj = spec[1]()
        try:
            out.append(["v", float(obj.f(list(x))).hex()])
        except Exception as e:  # noqa
            out.append(["e", type(e).__name__])
    sys.stdout.write(json.dumps(out))


if __name__ == "__main__":
    main()

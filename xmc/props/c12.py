"""C12 — SequOOL opens cells depth by depth within its harmonic budget."""
from .. import configs, world
from ..algorun import bystander_tasks, replay_algo, run_algo_task
from ..world import QueryAfterRound
from ..refs.sequool import SequOOLOracle, h_max_of

ID = "C12"
LEVEL = "model_checking"
RULE = ("SequOOL x {Binary 1-D, Kary(3) 1-D, DimensionBinary 2-D} x budgets n: every reward sequence in {0,1}^T / {0,1,-1}^T over the "
        "whole schedule plus a tail for n in {10,11,12} (E-full), and every script within k deviations of base scripts over the whole "
        "schedule plus 3 tail rounds for n in 10..40 and 100 (E-dev; the quick tier takes a VERIF_SEED-rotated subset of n), plus E-sched: the whole schedule for every budget n in 41..800 (thorough: 2000; quick: every second n) on one reward script, "
        "plus E-hmax: the depth bound of a freshly built SequOOL(n) for every budget n <= 20000 (thorough 60000) adjacent to a jump of floor(n/H_n) (and every 500th).  Every "
        "make_children call is an opening judged against the published schedule (root first, non-decreasing depth, floor(h_max/h) per "
        "depth, none beyond h_max, best unopened cell of the depth, children handed out once each in order, centre after exhaustion, "
        "recommendation unchanged).  distinct_nontrivial = executions reaching depth >= 2.")
ASSUMPTIONS = ["the run is continued past n rounds where needed to reach the end of the schedule (the statement quantifies over further pulls)",
               "ties: any unopened cell of maximal reward"]
VACUITY = [("openings_judged", "no opening judged"), ("exhausted_rounds", "the end of the schedule was never reached")]
PARTS = [("Binary", None, "neg1"), ("Kary", 3, "nd1"), ("DimensionBinary", None, "mix2")]


def schedule_len(n, K):
    hm = h_max_of(n)
    return K * (1 + sum(hm // h for h in range(1, hm + 1)))


def tasks(tier, seed):
    ts = []
    for part, K, box in PARTS:
        ar = configs.arity(part, K, len(configs.BOXES[box]))
        for n in (10, 11, 12):
            cfg = configs.cfg("SequOOL", part, K, configs.BOXES[box], n=n)
            L = schedule_len(n, ar)
            T = min(L + 2, 14 if tier == "quick" else 17)
            ts.append({"kind": "algo", "label": "full2/%s/n%d" % (part, n), "cfg": cfg, "mode": "full", "T": T, "R": list(configs.R2), "cost": 5})
            ts.append({"kind": "algo", "label": "full3/%s/n%d" % (part, n), "cfg": cfg, "mode": "full", "T": min(T, 9 if tier == "quick" else 11),
                       "R": list(configs.R3), "cost": 5})
        ns = list(range(10, 41)) + [100]
        if tier == "quick":
            ns = [n for n in ns if (n + seed) % 4 == 0] + [10]
        for n in ns:
            if n == 100 and tier == "quick" and part != "Binary":
                continue
            cfg = configs.cfg("SequOOL", part, K, configs.BOXES[box], n=n)
            L = schedule_len(n, ar)
            if n in (10, 24, 100) or tier == "thorough":
                ts += bystander_tasks("%s/n%d" % (part, n), cfg, configs.R3, T_long=L + 3, T_short=min(L + 3, 24), bases=("twopeak", "zero"),
                                      k=1 if tier == "quick" else 2)
            for base in (("twopeak", "zero") if tier == "quick" else ("twopeak", "zero", "alt", "negpeak")):
                ts.append({"kind": "algo", "label": "dev/%s/n%d/%s" % (part, n, base), "cfg": cfg, "mode": "dev", "T": L + 3,
                           "R": list(configs.R3), "base": base, "k": 1 if tier == "quick" else 2,
                           "max_exec": 3000 if tier == "quick" else 40000, "cost": 3 + L // 20, "query": tier == "thorough"})
    # E-sched: every budget n in a range, whole schedule + 3 rounds, two reward scripts (the schedule's shape is
    # reward-independent; rounding of h_max/h only shows for particular n)
    hi = 800 if tier == "quick" else 2000
    chunk = 40
    for lo in range(41, hi + 1, chunk):
        ns = [n for n in range(lo, min(lo + chunk, hi + 1)) if tier == "thorough" or (n + seed) % 2 == 0]
        ts.append({"kind": "sched", "label": "sched/%d" % lo, "ns": ns, "cost": 3 + lo // 20})
    # E-hmax: the depth bound itself, for every budget next to a jump of floor(n / H_n) (the last budget with a value and the
    # first with the next one: the budgets where an inexact H_n shows first) up to 20000 (thorough 60000)
    top = 20000 if tier == "quick" else 60000
    for lo in range(1, top, 2500):
        ts.append({"kind": "hmax", "label": "hmax/%d" % lo, "lo": lo, "hi": min(lo + 2500, top), "cost": 2 + lo // 2500})
    return ts


def _hmax_task(task):
    import math
    from ..world import Stats, seam
    from ..core import ChoiceSource, HarnessError
    from ..seams import ExpansionRecorder

    st = Stats()
    lo, hi = task["lo"], task["hi"]
    H = 0.0
    hs = {}
    amb = set()
    for n in range(1, hi + 2):
        H += 1.0 / n
        q = n / H
        hs[n] = math.floor(q)
        if abs(q - round(q)) < 1e-7 * q:
            amb.add(n)  # n / H_n within rounding of an integer: either value is accepted
    pc = configs.part_class("Binary", None)
    sm = seam()
    for n in range(max(lo, 2), hi):
        if not (hs[n] != hs[n + 1] or hs[n] != hs[n - 1] or n % 500 == 0):
            continue
        if task.get("only_n") and n != task["only_n"]:
            continue
        sm.set_source(ChoiceSource([]))
        ExpansionRecorder.ACTIVE = None
        from PyXAB.algos.SequOOL import SequOOL

        if world._GUARD:
            world._GUARD.reset()
        algo = SequOOL(n=n, domain=[[0.0, 1.0]], partition=pc)
        try:
            got = algo.h_max
        except AttributeError:
            raise HarnessError("cannot observe: SequOOL has no attribute 'h_max'")
        st.executions += 1
        st.states.add(hash(("hmax", n)))
        st.transitions.add(hash(("hmax", n, "t")))
        st.judged_rounds += 1
        st.bump("hmax_budgets")
        if n in amb:
            st.ambiguous += 1
            continue
        st.nontrivial.add(hash(("hmax", n)))
        st.outcomes.add(hash(("hmax", hs[n])))
        if int(got) != hs[n]:
            cfg = configs.cfg("SequOOL", "Binary", None, configs.BOXES["u1"], n=n)
            st.violations.append({"config": cfg, "script": [n], "oracle": "C12.hmax",
                                  "message": "SequOOL(n=%d) bounds its depth by h_max = %r; floor(n / H_n) = %d" % (n, got, hs[n]),
                                  "details": {"n": n}, "task": dict(task, only_n=n), "T": 0})
            if len(st.violations) >= 3:
                break
    return st


def _sched_task(task):
    import time as _t
    from ..world import Stats

    st = Stats()
    for n in task["ns"]:
        if task.get("deadline_abs") and _t.time() > task["deadline_abs"]:
            st.exhaustive = False
            st.caps.append({"task": task["label"], "cap": "wall-clock budget", "first_n_not_run": n})
            break
        cfg = configs.cfg("SequOOL", "Binary", None, configs.BOXES["u1" if n % 2 else "nd1"], n=n)
        L = schedule_len(n, 2)
        for base in ("twopeak",):
            t = {"cfg": cfg, "mode": "dev", "T": L + 3, "R": [1.0], "base": base, "k": 0, "label": task["label"]}
            run_algo_task(t, _mk, nontrivial=_nontrivial, stats=st, digest=(n % 25 == 0))
        st.bump("schedules")
    for v in st.violations:
        v["task"] = dict(v["task"], kind="algo")
    return st


def _mk():
    return [SequOOLOracle()]


def _mkq():
    # thorough tier: get_last_point() may be called after any round (a budgeted choice point)
    return [QueryAfterRound(), SequOOLOracle()]


def _nontrivial(ctx):
    if any(c["depth_before"] >= 1 for c in ctx.rec.calls):
        return tuple(tuple(map(float, x)) for x in ctx.points)
    return None


def run_task(task):
    if task["kind"] == "sched":
        return _sched_task(task)
    if task["kind"] == "hmax":
        return _hmax_task(task)
    return run_algo_task(task, _mkq if task.get("query") else _mk, nontrivial=_nontrivial)


def replay(task, script):
    if task.get("kind") == "hmax":
        st = _hmax_task(task)
        return [{"oracle": v["oracle"], "message": v["message"], "details": v["details"]} for v in st.violations[:1]]
    return replay_algo(task, script, _mkq if task.get("query") else _mk)


def bounds(tier):
    return {"full_n": [10, 11, 12], "full_T": "schedule+2, capped at %d (R2) / %d (R3)" % ((14, 9) if tier == "quick" else (17, 11)),
            "dev_n": "10..40 and 100" + (" (seed-rotated quarter)" if tier == "quick" else ""), "dev_k": 1 if tier == "quick" else 2}

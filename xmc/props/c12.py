"""C12 — SequOOL opens cells depth by depth within its harmonic budget."""
from .. import configs
from ..algorun import replay_algo, run_algo_task
from ..refs.sequool import SequOOLOracle, h_max_of

ID = "C12"
LEVEL = "model_checking"
RULE = ("SequOOL x {Binary 1-D, Kary(3) 1-D, DimensionBinary 2-D} x budgets n: every reward sequence in {0,1}^T / {0,1,-1}^T over the "
        "whole schedule plus a tail for n in {10,11,12} (E-full), and every script within k deviations of base scripts over the whole "
        "schedule plus 3 tail rounds for n in 10..40 and 100 (E-dev; the quick tier takes a VERIF_SEED-rotated subset of n).  Every "
        "make_children call is an opening judged against the published schedule (root first, non-decreasing depth, floor(h_max/h) per "
        "depth, none beyond h_max, best unopened cell of the depth, children handed out once each in order, centre after exhaustion, "
        "recommendation unchanged).  distinct_nontrivial = executions reaching depth >= 2.")
ASSUMPTIONS = ["the run is continued past n rounds where needed to reach the end of the schedule (the statement quantifies over further pulls)",
               "ties: any unopened cell of maximal reward"]
VACUITY = [("openings_judged", "no opening judged"), ("exhausted_rounds", "the end of the schedule was never reached")]
PARTS = [("Binary", None, "u1"), ("Kary", 3, "u1"), ("DimensionBinary", None, "u2")]


def schedule_len(n, K):
    hm = h_max_of(n)
    return K * (1 + sum(hm // h for h in range(1, hm + 1)))


def tasks(tier, seed):
    ts = []
    for part, K, box in PARTS:
        ar = configs.arity(part, K, len(configs.BOXES[box]))
        for n in (10, 11, 12):
            cfg = configs.cfg("SequOOL", part, K, configs.BOXES[box], n=n)
            L = schedule_len(n, ar)
            T = min(L + 2, 14 if tier == "quick" else 17)
            ts.append({"kind": "algo", "label": "full2/%s/n%d" % (part, n), "cfg": cfg, "mode": "full", "T": T, "R": list(configs.R2), "cost": 5})
            ts.append({"kind": "algo", "label": "full3/%s/n%d" % (part, n), "cfg": cfg, "mode": "full", "T": min(T, 9 if tier == "quick" else 11),
                       "R": list(configs.R3), "cost": 5})
        ns = list(range(10, 41)) + [100]
        if tier == "quick":
            ns = [n for n in ns if (n + seed) % 4 == 0] + [10]
        for n in ns:
            if n == 100 and tier == "quick" and part != "Binary":
                continue
            cfg = configs.cfg("SequOOL", part, K, configs.BOXES[box], n=n)
            L = schedule_len(n, ar)
            for base in (("twopeak", "zero") if tier == "quick" else ("twopeak", "zero", "alt", "negpeak")):
                ts.append({"kind": "algo", "label": "dev/%s/n%d/%s" % (part, n, base), "cfg": cfg, "mode": "dev", "T": L + 3,
                           "R": list(configs.R3), "base": base, "k": 1 if tier == "quick" else 2,
                           "max_exec": 3000 if tier == "quick" else 40000, "cost": 3 + L // 20})
    return ts


def _mk():
    return [SequOOLOracle()]


def _nontrivial(ctx):
    if any(c["depth_before"] >= 1 for c in ctx.rec.calls):
        return tuple(tuple(map(float, x)) for x in ctx.points)
    return None


def run_task(task):
    return run_algo_task(task, _mk, nontrivial=_nontrivial)


def replay(task, script):
    return replay_algo(task, script, _mk)


def bounds(tier):
    return {"full_n": [10, 11, 12], "full_T": "schedule+2, capped at %d (R2) / %d (R3)" % ((14, 9) if tier == "quick" else (17, 11)),
            "dev_n": "10..40 and 100" + (" (seed-rotated quarter)" if tier == "quick" else ""), "dev_k": 1 if tier == "quick" else 2}

"""C11 — Zooming keeps the domain covered by active arms and plays the max-index arm."""
from .. import configs
from ..algorun import bystander_tasks, replay_algo, run_algo_task
from ..refs.zooming import ZoomingOracle

ID = "C11"
LEVEL = "model_checking"
RULE = ("Zooming x 11 partition variants x d in {1,2} x (nu,rho) in {(3,0.7),(8,0.5),(1,0.9)}; every reward sequence in {0,1,-1}^T "
        "(E-full, split dimensions / fractions with <= 1 deviation) and every script within k deviations of base scripts over 120 rounds "
        "(phase boundaries at 2, 6, 14, 30, 62).  Per round: arms inside their cells, every leaf owned by an active arm, pulled arm "
        "maximises the index under the reference phase counter, refinement iff radius <= nu*rho^depth, children without the arm get "
        "fresh arms at their centres.  distinct_nontrivial = executions with a refinement.")
ASSUMPTIONS = ["the confidence radius of the refinement test is the one observable after receive_reward (phase counter and pull count once the round is booked), i.e. the radius the next pull's index uses; only radii within 1e-9 of the threshold are counted ambiguous",
               "tolerance 1e-9; ties: any arg-max"]
VACUITY = [("refinements", "no refinement observed"), ("refinements_arm_on_shared_face", "no refinement with the arm on a shared face"),
           ("pulls_judged", "no pull judged")]
PARAMS = [dict(nu=3, rho=0.7), dict(nu=8, rho=0.5), dict(nu=1, rho=0.9)]


def tasks(tier, seed):
    ts = []
    # long runs on boxes with non-dyadic end points: the arm sits on a rounded shared face after every refinement
    T = 250 if tier == "quick" else 600
    for params in (dict(nu=5, rho=0.7), dict(nu=8, rho=0.5)):
        for part, K in configs.PART_VARIANTS:
            for d in (1, 2):
                cfg = configs.cfg("Zooming", part, K, configs.ND_BOXES[d], **params)
                for base in ("twopeak", "bigpeak"):
                    ts.append({"kind": "algo", "label": "long/%s%s/%dd/nu%s/%s" % (part, K or "", d, params["nu"], base), "cfg": cfg, "mode": "dev", "T": T,
                               "R": list(configs.R2), "base": base, "k": 0, "cost": 3})
    for pi, params in enumerate(PARAMS):
        for part, K in configs.PART_VARIANTS:
            for box in ("u1", "mix2"):
                if tier == "quick" and (pi + len(box) + seed) % 2 and (part, K) not in configs.PART_CORE:
                    continue
                cfg = configs.cfg("Zooming", part, K, configs.BOXES[box], **params)
                lab = "%s%s/%s/%d" % (part, K or "", box, pi)
                rng = "Random" in part or (len(cfg["domain"]) > 1 and part != "DimensionBinary")
                ts.append({"kind": "algo", "label": "full/" + lab, "cfg": cfg, "mode": "full", "T": (6 if (part == "RandomKary" and (K or 0) >= 4) else 7) if tier == "quick" else 10,
                           "R": list(configs.R3), "rng_k": 1 if rng else None, "cost": 4, "max_exec": 40000 if tier == "quick" else 600000})
                if box != "u1":
                    ts += bystander_tasks(lab, cfg, configs.R3, T_long=70, bases=("bigpeak", "twopeak"), k=1 if tier == "quick" else 2)
                for base in (("bigpeak", "noff5") if tier == "quick" else ("bigpeak", "noff5", "noff6", "twopeak", "alt", "zero")):
                    ts.append({"kind": "algo", "label": "dev/%s/%s" % (lab, base), "cfg": cfg, "mode": "dev",
                               "T": 70 if tier == "quick" else 120, "R": list(configs.R3), "base": base,
                               "k": 1 if tier == "quick" else 2, "max_exec": 2500 if tier == "quick" else 40000, "cost": 6})
    return ts


def _mk():
    return [ZoomingOracle()]


def _nontrivial(ctx):
    n = len(ctx.rec.calls)
    if n > (2 if True else 0):
        return tuple(tuple(map(float, x)) for x in ctx.points)
    return None


def run_task(task):
    return run_algo_task(task, _mk, nontrivial=_nontrivial)


def replay(task, script):
    return replay_algo(task, script, _mk)


def bounds(tier):
    return {"full_T": 7 if tier == "quick" else 10, "dev_T": 70 if tier == "quick" else 120, "dev_k": 1 if tier == "quick" else 2,
            "params": PARAMS, "rewards": list(configs.R3)}

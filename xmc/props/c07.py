"""C07 — simple-regret algorithms recommend their best evaluated candidate."""
from .. import configs
from ..algorun import bystander_tasks, replay_algo, run_algo_task
from ..ledger import recording_classes
from ..refs.simple_regret import RecommendOracle

ID = "C07"
LEVEL = "model_checking"
RULE = ("{DOO, SOO, SequOOL, StoSOO, StroquOOL, POO x3, GPO x3, PCT, VPCT} x {Binary 1-D, Kary(3) 1-D, DimensionBinary 2-D}; every "
        "reward sequence over {0,1,-1}^T and over the all-non-positive alphabet {0,-1,-0.5}^T (E-full), plus scripts within k deviations "
        "of base scripts up to the end of the StroquOOL / GPO schedules (n=100).  After every round get_last_point() is compared with the "
        "harness ledger of (point, reward) pairs / recorded means / learner scores.  distinct_nontrivial = executions with >= 2 distinct points.")
ASSUMPTIONS = ["get_last_point() of these algorithms is queried on the live object (they are side-effect free or idempotent; C15 checks that "
               "for the anytime algorithms)", "before the first validated candidate exists (StroquOOL, GPO/PCT/VPCT) nothing is judged: finding D10 of C01",
               "ties: any maximiser accepted; tolerance 1e-9"]
VACUITY = [("recommendations_judged", "no recommendation judged"), ("nonpositive_histories", "no all-non-positive history judged")]


def _cfgs(tier="quick"):
    out = []
    for label, algo, params in configs.all_algo_variants(100):
        if algo in ("T_HOO", "HCT", "VHCT", "VROOM", "Zooming"):
            continue
        for part, K, box in [("Binary", None, "u1"), ("Kary", 3, "u1"), ("DimensionBinary", None, "u2")] + \
                ([("RandomBinary", None, "u1"), ("RandomKary", 3, "mix2")] if tier == "thorough" else []):
            out.append((label, configs.cfg(algo, part, K, configs.BOXES[box], **params)))
    return out


def tasks(tier, seed):
    ts = []
    for label, cfg in _cfgs(tier):
        wrapper = cfg["algo"] in configs.WRAPPERS
        lab = "%s/%s" % (label, cfg["part"])
        T = (6 if wrapper else 8) if tier == "quick" else (8 if wrapper else 10)
        for rn, R in (("R3", configs.R3), ("R3n", configs.R3n)):
            if wrapper and rn == "R3n" and tier == "quick":
                continue
            ts.append({"kind": "algo", "label": "full%s/%s" % (rn, lab), "cfg": cfg, "mode": "full", "T": T, "R": list(R), "cost": 4,
                       "rng_k": 1 if "Random" in cfg["part"] else None})
        ts += bystander_tasks(lab, configs.shifted(cfg), [-1.0, 1.0] if wrapper else configs.R3, T_long=100, T_short=16 if wrapper else 24,
                              bases=("negpeak", "twopeak"), k=1 if tier == "quick" else 2)
        if wrapper and tier == "quick" and cfg["part"] != "Binary":
            continue
        for base in (("negpeak", "off12") if tier == "quick" else ("negpeak", "off12", "peak", "alt", "twopeak")):
            ts.append({"kind": "algo", "label": "dev/%s/%s" % (lab, base), "cfg": cfg, "mode": "dev", "T": 100,
                       "R": [-1.0, 1.0] if wrapper else list(configs.R3), "base": base, "k": 1 if (tier == "quick" or wrapper) else 2,
                       "max_exec": 2500 if tier == "quick" else 30000, "cost": 10})
    # StroquOOL with a budget large enough for two validation candidates (n=200: h_max=2, p_max=1): the whole schedule
    # (exploration + validation of both candidates) fits in 17 rounds
    for part, K, box in (("Binary", None, "u1"), ("DimensionBinary", None, "u2")):
        cfg = configs.cfg("StroquOOL", part, K, configs.BOXES[box], n=200)
        ts.append({"kind": "algo", "label": "full/StroquOOL200/%s" % part, "cfg": cfg, "mode": "full", "T": 17 if tier == "thorough" else 16,
                   "R": [-1.0, -0.5], "cost": 30})
        for base in ("negpeak", "neg", "twopeak"):
            ts.append({"kind": "algo", "label": "dev/StroquOOL200/%s/%s" % (part, base), "cfg": cfg, "mode": "dev", "T": 20,
                       "R": list(configs.R3n), "base": base, "k": 2, "cost": 5})
    # StoSOO with a small depth cap: the tree reaches level h_max + 1 and the deepest level is no longer the searched one
    for hm, k in ((3, 1), (3, 2), (4, 2)):
        for part, K, box in (("Binary", None, "u1"), ("Kary", 3, "u1")):
            cfg = configs.cfg("StoSOO", part, K, configs.BOXES[box], n=300, k=k, h_max=hm)
            ts.append({"kind": "algo", "label": "dev/StoSOOcap%d_%d/%s" % (hm, k, part), "cfg": cfg, "mode": "dev", "T": 90,
                       "R": list(configs.R3), "base": "twopeak", "k": 1, "cost": 6})
    # StroquOOL: one budget per value of h_max (1..8), whole run on three reward scripts (k=0: one execution each)
    for n in (100, 185, 326, 482, 649, 826, 1011, 1203):
        for base in ("negpeak", "zero", "alt", "neg"):
            cfg = configs.cfg("StroquOOL", "Binary", None, configs.BOXES["u1"], n=n)
            ts.append({"kind": "algo", "label": "base/StroquOOL%d/%s" % (n, base), "cfg": cfg, "mode": "dev", "T": min(n, 450),
                       "R": list(configs.R2), "base": base, "k": 0, "cost": 2})
    cfg = configs.cfg("StroquOOL", "Binary", None, configs.BOXES["u1"], n=1000)
    ts.append({"kind": "algo", "label": "dev/StroquOOL1000/negpeak", "cfg": cfg, "mode": "dev", "T": 120, "R": list(configs.R3n), "base": "negpeak",
               "k": 1, "cost": 10})
    return ts


def _mk():
    return [RecommendOracle()]


def _nontrivial(ctx):
    pts = {tuple(map(float, x)) for x in ctx.points if x is not None}
    if len(pts) >= 2:
        return tuple(tuple(map(float, x)) for x in ctx.points)
    return None


def _lc(task):
    return recording_classes if task["cfg"]["algo"] in configs.WRAPPERS else None


def run_task(task):
    return run_algo_task(task, _mk, nontrivial=_nontrivial, learner_classes=_lc(task))


def replay(task, script):
    return replay_algo(task, script, _mk, learner_classes=_lc(task))


def bounds(tier):
    return {"full_T": "8 (6 wrappers)" if tier == "quick" else "10 (8 wrappers)", "rewards": [list(configs.R3), list(configs.R3n)],
            "dev_T": 100, "dev_k": 1 if tier == "quick" else 2}

"""C05 — T-HOO, HCT and VHCT pull the cell chosen by the published optimistic index."""
from .. import configs
from ..algorun import bystander_tasks, replay_algo, run_algo_task
from ..refs.tree_bandits import TreeBanditOracle
from ..world import QueryAfterRound

ID = "C05"
WHICH = "C05"
LEVEL = "model_checking"
RULE = ("{T_HOO,HCT,VHCT} x {Binary 1-D, Binary 2-D (both split dimensions), DimensionBinary 2-D, Kary(3) 1-D} x parameter grid "
        "(nu, rho, c, delta, bound, rounds); every reward sequence in R^T (E-full, crossing the refreshes at t=1,2,4,8) and every "
        "script within k deviations of base scripts over 70 rounds (refreshes at 16,32,64).  After every round the stored U/B of "
        "every non-root reachable cell is compared with the published index recomputed from the raw history (staleness "
        "reproduced), and every step of every descent must go to a max-B child and stop by the published rule.  "
        "distinct_nontrivial = executions with a descent deeper than one level.")
ASSUMPTIONS = ["parameter sets with c1*delta <= 1/2 only (the cap inside delta~ is not defined by the statement)",
               "degrees of freedom admitted: placement of the power-of-two refresh before/after that round's traversal (whole run "
               "must be consistent with one), delta~ of round t or t+1 for the pulled cell's U, both roundings of a ceil() within 1e-9",
               "the root is a pure routing cell (never pulled, its own index never limits a descent)", "relative tolerance 1e-9"]
VACUITY = [("value_checks", "no stored value was compared"), ("descents_deeper_than_1", "no descent below depth 1"),
           ("refresh_rounds", "no power-of-two refresh was crossed")]

GRID = {
    "T_HOO": [dict(nu=1, rho=0.5, rounds=100), dict(nu=0.5, rho=0.7, rounds=8), dict(nu=2, rho=0.9, rounds=1000),
              dict(nu=1, rho=0.5, rounds=8), dict(nu=0.5, rho=0.9, rounds=100), dict(nu=2, rho=0.7, rounds=1000)],
    "HCT": [dict(nu=1, rho=0.5, c=0.1, delta=0.01), dict(nu=1, rho=0.5, c=0.5, delta=0.01), dict(nu=0.5, rho=0.7, c=0.1, delta=0.1),
            dict(nu=2, rho=0.9, c=0.5, delta=0.1), dict(nu=2, rho=0.5, c=0.1, delta=0.1), dict(nu=0.5, rho=0.9, c=0.5, delta=0.01)],
    "VHCT": [dict(nu=1, rho=0.5, c=0.1, delta=0.01, bound=1), dict(nu=1, rho=0.5, c=0.5, delta=0.01, bound=0.5),
             dict(nu=0.5, rho=0.7, c=0.1, delta=0.1, bound=1), dict(nu=2, rho=0.9, c=0.5, delta=0.1, bound=1),
             dict(nu=2, rho=0.5, c=0.1, delta=0.1, bound=0.5), dict(nu=0.5, rho=0.9, c=0.5, delta=0.01, bound=1)],
}
PARTS = [("Binary", None, "u1"), ("DimensionBinary", None, "u2"), ("Kary", 3, "u1"), ("Binary", None, "u2")]


EXTRA_QUICK = {"HCT": dict(nu=0.25, rho=0.5, c=0.1, delta=0.01), "VHCT": dict(nu=0.25, rho=0.5, c=0.1, delta=0.01, bound=1)}


def tasks(tier, seed, which="C05"):
    ts = []
    for algo in ("T_HOO", "HCT", "VHCT"):
        grid = GRID[algo]
        if tier == "quick":
            grid = [grid[(seed + i) % len(grid)] for i in (0, 1)] if seed % 3 else grid[:2]
        # always one smoothness constant far from 1 (nu enters the HCT/VHCT thresholds only through c1 = (rho/(3 nu))^(1/8))
        if algo in EXTRA_QUICK and EXTRA_QUICK[algo] not in grid:
            grid = list(grid) + [EXTRA_QUICK[algo]]
        for gi, params in enumerate(grid):
            for part, K, box in (PARTS if tier == "quick" else PARTS + [("RandomBinary", None, "u1"), ("RandomKary", 3, "mix2")]):
                cfg = configs.cfg(algo, part, K, configs.BOXES[box], **params)
                lab = "%s/%s%s/%s/%d" % (algo, part, K or "", box, gi)
                d2 = (part == "Binary" and box == "u2") or "Random" in part
                ts.append({"kind": "algo", "label": "full2/" + lab, "cfg": cfg, "mode": "full", "T": 8 if tier == "quick" else 10,
                           "R": list(configs.R2), "rng_k": 2 if d2 else None, "cost": 3})
                ts.append({"kind": "algo", "label": "full3/" + lab, "cfg": cfg, "mode": "full", "T": 6 if tier == "quick" else 8,
                           "R": list(configs.R3), "rng_k": 1 if d2 else None, "cost": 3})
                ts += bystander_tasks(lab, configs.shifted(cfg), configs.R3, T_long=70, k=1 if tier == "quick" else 2)
                # get_last_point() asked after a round (environment move, a budgeted choice point like a reward departure): the index
                # must keep following the true round counter
                ts.append({"kind": "algo", "label": "devq/" + lab, "cfg": cfg, "mode": "dev", "T": 70, "R": list(configs.R2), "base": "noisy",
                           "k": 1 if tier == "quick" else 2, "max_exec": 2000 if tier == "quick" else 30000, "cost": 10, "query": True})
                ts.append({"kind": "algo", "label": "fullq/" + lab, "cfg": cfg, "mode": "full", "T": 6 if tier == "quick" else 8, "R": list(configs.R2),
                           "query_k": 1 if tier == "quick" else 2, "cost": 3, "query": True})
                for base in (("peak", "alt", "off8") if tier == "quick" else ("peak", "alt", "off8", "zero", "twopeak", "negpeak")):
                    ts.append({"kind": "algo", "label": "dev/%s/%s" % (lab, base), "cfg": cfg, "mode": "dev", "T": 70,
                               "R": list(configs.R3), "base": base, "k": 1 if tier == "quick" else 2,
                               "max_exec": 2000 if tier == "quick" else 30000, "cost": 10})
    return ts


def _mk():
    return [TreeBanditOracle(WHICH)]


def _mkq():
    return [QueryAfterRound(), TreeBanditOracle(WHICH)]


def _nontrivial(ctx):
    deep = [i for i, c in enumerate(ctx.rec.calls) if c["depth_before"] >= 1]
    if deep:
        return tuple(tuple(map(float, x)) for x in ctx.points)
    return None


def run_task(task):
    return run_algo_task(task, _mkq if task.get("query") else _mk, nontrivial=_nontrivial)


def replay(task, script):
    return replay_algo(task, script, _mkq if task.get("query") else _mk)


def bounds(tier):
    return {"full_T_R2": 8 if tier == "quick" else 10, "full_T_R3": 6 if tier == "quick" else 8, "dev_T": 70,
            "dev_k": 1 if tier == "quick" else 2, "param_sets_per_algo": 2 if tier == "quick" else 6,
            "partitions": ["Binary d=1", "DimensionBinary d=2", "Kary(3) d=1", "Binary d=2"]}

"""C08 — SOO, StoSOO and DOO evaluate and expand cells by their optimistic rule."""
from .. import configs
from ..algorun import bystander_tasks, replay_algo, run_algo_task
from ..world import QueryAfterRound
from ..refs.soo_family import SweepOracle

ID = "C08"
LEVEL = "model_checking"
RULE = ("{SOO, StoSOO(k=1,2,3), DOO(default delta, user delta)} (incl. depth caps 2 and 3 that saturate within the horizon: the run then ends when pull has nothing left) x {Binary 1-D, Kary(3) 1-D, DimensionBinary 2-D, Binary 2-D} x depth caps "
        "{n, 2n}; every reward sequence in {0,1,-1}^T (E-full) and every script within k deviations of base scripts over 100 rounds "
        "(E-dev).  A model of the tree (leaves per depth in creation order, evaluation ledger) is updated from the recorded "
        "make_children calls; every expansion and every hand-out is judged against the published optimistic rule.  "
        "distinct_nontrivial = executions with >= 2 expansions.")
ASSUMPTIONS = ["sweep order = depth-major, creation (list) order within a depth", "ties: any arg-max accepted; tolerance 1e-9",
               "DOO default delta recomputed by the reference from the cells of the expanded cell's true depth"]
VACUITY = [("expansions_judged", "no expansion judged"), ("handouts_judged", "no hand-out judged")]


def _cfgs(tier):
    out = []
    variants = [("SOO", dict(n=100, h_max=100)), ("SOO", dict(n=100, h_max=200)),
                ("StoSOO", dict(n=100, k=1, h_max=100)), ("StoSOO", dict(n=100, k=2, h_max=100)),
                ("StoSOO", dict(n=100, k=3, h_max=200)), ("StoSOO", dict(n=100, k=None, h_max=100, delta=0.5)),
                ("StoSOO", dict(n=100, k=1, h_max=2)), ("StoSOO", dict(n=100, k=2, h_max=2)), ("StoSOO", dict(n=100, k=2, h_max=3)),
                ("DOO", dict(n=100)), ("DOO", dict(n=100, delta=["pow", 1.0, 0.5])), ("DOO", dict(n=100, delta=["pow", 3.0, 0.9]))]
    for algo, params in variants:
        for part, K, box in [("Binary", None, "u1"), ("Kary", 3, "u1"), ("DimensionBinary", None, "u2"), ("Binary", None, "u2")] + \
                ([("RandomBinary", None, "u1"), ("RandomKary", 3, "mix2")] if tier == "thorough" else []):
            out.append(configs.cfg(algo, part, K, configs.BOXES[box], **params))
    return out


def tasks(tier, seed):
    ts = []
    # SOO with a depth cap that binds: explored up to the round before the cap saturates (afterwards SOO.pull
    # never returns: the statement presupposes a cap large enough for the horizon)
    for hm, T in ((2, 7), (3, 13)):
        for part, K, box in (("Binary", None, "u1"), ("Kary", 3, "u1")):
            cfg = configs.cfg("SOO", part, K, configs.BOXES[box], n=100, h_max=hm)
            ts.append({"kind": "algo", "label": "full/SOOcap%d/%s" % (hm, part), "cfg": cfg, "mode": "full", "T": T if part == "Binary" else min(T, 9),
                       "R": list(configs.R2) if T > 9 else list(configs.R3), "cost": 4})
    # ... and one round past saturation on a few scripts: on the unchanged tree SOO.pull then never returns (the hang
    # guard ends the execution, counted as a crash); code that evaluates below the cap instead is reported
    cfg = configs.cfg("SOO", "Binary", None, configs.BOXES["u1"], n=100, h_max=2)
    ts.append({"kind": "algo", "label": "dev/SOOcap2/saturated", "cfg": cfg, "mode": "dev", "T": 8, "R": list(configs.R2), "base": "peak",
               "k": 1 if tier == "quick" else 2, "cost": 60})
    for i, cfg in enumerate(_cfgs(tier)):
        lab = "%s/%s%s/%dd/%d" % (cfg["algo"], cfg["part"], cfg["K"] or "", len(cfg["domain"]), i)
        d2 = (cfg["part"] == "Binary" and len(cfg["domain"]) == 2) or "Random" in cfg["part"]
        Tq = (6 if d2 else 8) if tier == "quick" else (8 if d2 else 10)
        ts.append({"kind": "algo", "label": "full/" + lab, "cfg": cfg, "mode": "full", "T": Tq,
                   "R": list(configs.R3), "rng_k": 1 if d2 else None, "cost": 5})
        ts += bystander_tasks(lab, configs.shifted(cfg), configs.R3, T_long=100, k=1 if tier == "quick" else 2)
        for base in (("peak", "negpeak", "off12") if tier == "quick" else ("peak", "negpeak", "off12", "alt", "zero", "twopeak")):
            ts.append({"kind": "algo", "label": "dev/%s/%s" % (lab, base), "cfg": cfg, "mode": "dev", "T": 100,
                       "R": list(configs.R3), "base": base, "k": 1 if tier == "quick" else 2,
                       "max_exec": 2000 if tier == "quick" else 30000, "cost": 8, "query": tier == "thorough"})
    return ts


def _mk():
    return [SweepOracle()]


def _mkq():
    # thorough tier: get_last_point() may be called after any round (a budgeted choice point)
    return [QueryAfterRound(), SweepOracle()]


def _nontrivial(ctx):
    if len(ctx.rec.calls) >= 2:
        return tuple(tuple(map(float, x)) for x in ctx.points)
    return None


def run_task(task):
    return run_algo_task(task, _mkq if task.get("query") else _mk, nontrivial=_nontrivial)


def replay(task, script):
    return replay_algo(task, script, _mkq if task.get("query") else _mk)


def bounds(tier):
    return {"full_T": "8 (6 on Binary 2-D)" if tier == "quick" else "10 (8 on Binary 2-D)", "rewards": list(configs.R3), "dev_T": 100, "dev_k": 1 if tier == "quick" else 2}

"""Second process of C14(a): re-runs the jobs under another PYTHONHASHSEED, another
random.seed and a shifted fake clock, prints the traces as JSON."""
import json
import os
import sys
import time


def main():
    shift = float(os.environ.get("XMC_FAKE_CLOCK", "0"))
    if shift:
        real_time, real_pc, real_mono = time.time, time.perf_counter, time.monotonic
        time.time = lambda: real_time() + shift
        time.perf_counter = lambda: real_pc() + shift
        time.monotonic = lambda: real_mono() + shift
    import random

    random.seed(987654321)
    from xmc.props import c14

    d = json.loads(sys.stdin.read())
    out = []
    for seed, rew in d["jobs"]:
        r = c14.run_real(d["cfg"], rew, seed, pyseed=987654321)
        # run_real reseeds `random`; disturb it again to show no dependence
        out.append(r)
    sys.stdout.write(json.dumps(out))


if __name__ == "__main__":
    main()

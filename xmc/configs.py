"""Configuration alphabet: partitions, algorithms, boxes, reward alphabets.

A config is a JSON-serialisable dict
  {"algo": name, "params": {...}, "part": name, "K": int|None, "domain": [[lo,hi],...]}
so that replay files are self-contained.
"""
import copy
import functools
import importlib
import os
import sys

from .core import HarnessError

REPO = os.environ.get("PYXAB_REPO", "/repo")


def _import_repo():
    if REPO not in sys.path[:1]:
        sys.path.insert(0, REPO)
    import PyXAB  # noqa

    f = os.path.realpath(PyXAB.__file__)
    if not f.startswith(os.path.realpath(REPO) + os.sep):
        raise HarnessError("PyXAB imported from %s, not from the tree under check %s" % (f, REPO))
    return PyXAB


_import_repo()

from PyXAB.partition.Node import P_node  # noqa: E402
from PyXAB.partition.BinaryPartition import BinaryPartition  # noqa: E402
from PyXAB.partition.RandomBinaryPartition import RandomBinaryPartition  # noqa: E402
from PyXAB.partition.DimensionBinaryPartition import DimensionBinaryPartition  # noqa: E402
from PyXAB.partition.KaryPartition import KaryPartition  # noqa: E402
from PyXAB.partition.RandomKaryPartition import RandomKaryPartition  # noqa: E402

PKG_DIR = os.path.join(os.path.realpath(REPO), "PyXAB") + os.sep

PART_NAMES = ("Binary", "RandomBinary", "DimensionBinary", "Kary", "RandomKary")
_BASE = {
    "Binary": BinaryPartition,
    "RandomBinary": RandomBinaryPartition,
    "DimensionBinary": DimensionBinaryPartition,
    "Kary": KaryPartition,
    "RandomKary": RandomKaryPartition,
}


@functools.lru_cache(maxsize=None)
def part_class(name, K=None):
    base = _BASE[name]
    if name in ("Kary", "RandomKary") and K is not None:
        k = int(K)

        class _P(base):
            def __init__(self, domain=None, node=P_node):
                super().__init__(domain=domain, K=k, node=node)

        _P.__name__ = "%s_K%d" % (base.__name__, k)
        _P.__qualname__ = _P.__name__
        return _P
    return base


def arity(cfg_or_part, K=None, d=None):
    """Documented number of children."""
    if isinstance(cfg_or_part, dict):
        name, K, d = cfg_or_part["part"], cfg_or_part.get("K"), len(cfg_or_part["domain"])
    else:
        name = cfg_or_part
    if name in ("Binary", "RandomBinary"):
        return 2
    if name == "DimensionBinary":
        return 2 ** d
    return 3 if K is None else int(K)


# the 11 partition variants of the design
PART_VARIANTS = [("Binary", None), ("RandomBinary", None), ("DimensionBinary", None)] + [
    ("Kary", k) for k in (2, 3, 4, 5)
] + [("RandomKary", k) for k in (2, 3, 4, 5)]
PART_CORE = [("Binary", None), ("DimensionBinary", None), ("Kary", 3)]

BOXES = {
    "u1": [[0.0, 1.0]],
    "neg1": [[-3.0, -1.0]],
    "nd1": [[0.1, 0.7]],
    "u2": [[0.0, 1.0], [0.0, 1.0]],
    "mix2": [[-2.0, 6.0], [0.25, 0.5]],
    "u3": [[0.0, 1.0], [-1.0, 1.0], [2.0, 4.0]],
}

# boxes whose end points are not dyadic: midpoints, widths and centres are rounded, "x lies in the cell" is no longer exact
ND_BOXES = {1: [[0.1, 0.7]], 2: [[0.1, 0.7], [0.2, 1.1]], 3: [[0.1, 0.7], [0.2, 1.1], [-1.0 / 3.0, 2.0 / 3.0]]}

R2 = (0.0, 1.0)
R3 = (0.0, 1.0, -1.0)
R3n = (0.0, -1.0, -0.5)
R4 = (0.0, -1.0, 0.5, 1e6)


def _algos():
    from PyXAB.algos.HOO import T_HOO
    from PyXAB.algos.HCT import HCT
    from PyXAB.algos.VHCT import VHCT
    from PyXAB.algos.POO import POO
    from PyXAB.algos.GPO import GPO
    from PyXAB.algos.PCT import PCT
    from PyXAB.algos.VPCT import VPCT
    from PyXAB.algos.DOO import DOO
    from PyXAB.algos.SOO import SOO
    from PyXAB.algos.StoSOO import StoSOO
    from PyXAB.algos.SequOOL import SequOOL
    from PyXAB.algos.StroquOOL import StroquOOL
    from PyXAB.algos.VROOM import VROOM
    from PyXAB.algos.Zooming import Zooming

    return dict(T_HOO=T_HOO, HCT=HCT, VHCT=VHCT, POO=POO, GPO=GPO, PCT=PCT, VPCT=VPCT, DOO=DOO, SOO=SOO,
                StoSOO=StoSOO, SequOOL=SequOOL, StroquOOL=StroquOOL, VROOM=VROOM, Zooming=Zooming)


ALGOS = _algos()
TREE_BANDITS = ("T_HOO", "HCT", "VHCT")
WRAPPERS = ("POO", "GPO", "PCT", "VPCT")


def delta_fn(spec):
    """DOO user delta: ["pow", c, base] -> h |-> c * base**h."""
    if spec is None:
        return None
    kind, c, base = spec
    assert kind == "pow"

    def delta(h):
        return c * base ** h

    delta.spec = spec
    return delta


def budget_of(cfg):
    p = cfg["params"]
    for k in ("rounds", "n"):
        if k in p:
            return p[k]
    return None


def user_domain(domain, alias=False):
    """A fresh copy of the user's domain list.  alias=True writes it the way `[[lo, hi]] * d` does: every row is the SAME list
    object (JSON cannot say that, hence the flag `alias_rows` in configs / tasks)."""
    d = copy.deepcopy(domain)
    if alias:
        if any(r != d[0] for r in d):
            raise HarnessError("alias_rows needs equal rows")
        d = [d[0]] * len(d)
    return d


def build(cfg, learner_classes=None):
    """Construct the algorithm of `cfg` from fresh inputs.  Returns (algo, domain_obj).
    learner_classes: optional dict name -> class used instead of the base learner handed
    to POO/GPO (recording subclasses keeping __name__)."""
    domain = user_domain(cfg["domain"], cfg.get("alias_rows"))
    pc = part_class(cfg["part"], cfg.get("K"))
    name = cfg["algo"]
    p = dict(cfg["params"])
    cls = ALGOS[name]
    if name in ("POO", "GPO"):
        base = p.pop("base")
        bcls = (learner_classes or {}).get(base, ALGOS[base])
        algo = cls(domain=domain, partition=pc, algo=bcls, **p)
    elif name == "DOO":
        d = delta_fn(p.pop("delta", None))
        algo = cls(domain=domain, partition=pc, delta=d, **p)
    elif name in ("PCT", "VPCT") and learner_classes:
        # PCT/VPCT look up HCT/VHCT in their own module at construction time
        import importlib

        mod = importlib.import_module("PyXAB.algos." + name)
        base = "HCT" if name == "PCT" else "VHCT"
        orig = getattr(mod, base)
        setattr(mod, base, learner_classes.get(base, orig))
        try:
            algo = cls(domain=domain, partition=pc, **p)
        finally:
            setattr(mod, base, orig)
    else:
        algo = cls(domain=domain, partition=pc, **p)
    return algo, domain


def cfg(algo, part="Binary", K=None, domain=None, **params):
    return {"algo": algo, "params": params, "part": part, "K": K,
            "domain": copy.deepcopy(domain if domain is not None else BOXES["u1"])}


def default_params(algo, budget=100):
    """Documented default-ish parameters with the given budget."""
    if algo == "T_HOO":
        return dict(nu=1, rho=0.5, rounds=budget)
    if algo == "HCT":
        return dict(nu=1, rho=0.5, c=0.1, delta=0.01)
    if algo == "VHCT":
        return dict(nu=1, rho=0.5, c=0.1, delta=0.01, bound=1)
    if algo in ("PCT", "VPCT"):
        return dict(numax=1, rhomax=0.9, rounds=budget)
    if algo == "DOO":
        return dict(n=budget)
    if algo == "SOO":
        return dict(n=budget, h_max=budget)
    if algo == "StoSOO":
        return dict(n=budget, k=2, h_max=budget)
    if algo in ("SequOOL", "StroquOOL"):
        return dict(n=budget)
    if algo == "VROOM":
        return dict(n=budget, h_max=budget, b=1, f_max=1)
    if algo == "Zooming":
        return dict(nu=1, rho=0.9)
    raise KeyError(algo)


def all_algo_variants(budget=100):
    """(label, algo, params) for every algorithm and wrapper x base of the design."""
    out = []
    for a in ("T_HOO", "HCT", "VHCT", "DOO", "SOO", "StoSOO", "SequOOL", "StroquOOL", "VROOM", "Zooming",
              "PCT", "VPCT"):
        out.append((a, a, default_params(a, budget)))
    out.append(("DOO_user", "DOO", dict(n=budget, delta=["pow", 1.0, 0.5])))
    for b in TREE_BANDITS:
        out.append(("POO_" + b, "POO", dict(numax=1, rhomax=0.9, rounds=budget, base=b)))
        out.append(("GPO_" + b, "GPO", dict(numax=1.0, rhomax=0.9, rounds=budget, base=b)))
    return out


def bystander_of(c):
    """Config of a second instance of the same class with other parameters on a moved and scaled box (same partition
    class, same dimension): the instance that lives next to the object under check in the `bystander` task families."""
    p = dict(c["params"])
    a = c["algo"]

    def alt(x, u=0.5, v=0.7):
        return v if x == u else u

    if a in ("T_HOO", "HCT", "VHCT", "Zooming"):
        p["nu"] = 2 * p.get("nu", 1)
        p["rho"] = alt(p.get("rho", 0.5))
    if a == "T_HOO":
        p["rounds"] = 3 * p.get("rounds", 100) + 1
    if a in ("HCT", "VHCT"):
        p["c"] = 3 * p.get("c", 0.1)
        p["delta"] = 0.5 * p.get("delta", 0.01)
    if a == "VHCT":
        p["bound"] = 2 * p.get("bound", 1)
    if a in WRAPPERS:
        p["numax"] = 2 * p.get("numax", 1)
        p["rhomax"] = alt(p.get("rhomax", 0.9), 0.9, 0.95)
        p["rounds"] = p.get("rounds", 100) + 37
    if a in ("DOO", "SOO", "SequOOL", "StroquOOL"):
        p["n"] = p.get("n", 100) + 37
    if a == "DOO":
        p["delta"] = None if p.get("delta") else ["pow", 2.0, 0.6]
    if a == "SOO":
        p["h_max"] = p.get("h_max", 100) + 5
    if a == "StoSOO":
        p["n"] = 2 * p.get("n", 100) + 1
        p["k"] = (p.get("k") or 2) + 1
        p["delta"] = 1e-6
    if a == "VROOM":
        p["n"] = 2 * p.get("n", 100)
        p["b"] = 2 * p.get("b", 1)
        p["f_max"] = 3 * p.get("f_max", 1)
        p["h_max"] = p.get("h_max", 100) + 1
    dom = [[3.0 * lo - 5.0, 3.0 * hi - 5.0] for lo, hi in c["domain"]]
    return {"algo": a, "params": p, "part": c["part"], "K": c.get("K"), "domain": dom}


def shifted(c):
    """The same config on a box that is neither zero-based nor of unit width (1-D: [-3,-1]; 2-D: [-2,6]x[0.25,0.5]; 3-D: u3)."""
    out = copy.deepcopy(c)
    out["domain"] = copy.deepcopy({1: BOXES["neg1"], 2: BOXES["mix2"], 3: BOXES["u3"]}[len(c["domain"])])
    return out


def with_bystander(c):
    out = copy.deepcopy(c)
    out["bystander"] = bystander_of(c)
    return out

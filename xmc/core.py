"""xmc core: choice source, stateless bounded-exhaustive enumeration of scripts.

A *script* is a list of integer answers, one per choice point, in the order the
execution meets them.  A choice point is (kind, menu_size); the execution asks
`src.choose(kind, n)` and gets an index in range(n).  Beyond the end of the script the
default answer is taken (index 0 for E-full; the base answer for E-dev).

Replay discipline: when a script prefix is replayed, the sequence of (kind, menu_size)
met must be the one recorded when the prefix was generated; any difference raises
HarnessError (exit 2), never a VIOLATION.
"""
import hashlib
import json


class HarnessError(Exception):
    """The harness itself is wrong / cannot observe: exit code 2, never a VIOLATION."""


class Violation(Exception):
    def __init__(self, oracle, message, **details):
        super().__init__(message)
        self.oracle = oracle
        self.message = message
        self.details = details


class ChoiceSource:
    """Answers choice points from a script; records every point met."""

    __slots__ = ("script", "expect", "points", "pos", "dev", "counts", "_nrand")

    def __init__(self, script=(), expect=None, dev=None):
        self.script = list(script)
        self.expect = expect  # list of (kind, n) recorded for the prefix, or None
        self.points = []  # (kind, n, answer, default)
        self.pos = 0
        self.dev = dev  # E-dev: dict position -> answer (overrides default)
        self.counts = {}
        self._nrand = 0

    def choose(self, kind, n, default=0):
        """Return an index in range(n). `default` is used beyond the script (E-dev base)."""
        i = self.pos
        if n <= 0:
            raise HarnessError("empty menu at choice point %d (%s)" % (i, kind))
        if self.dev is not None:
            a = self.dev.get(i, default)
            if a >= n:
                # a deviation recorded for a menu that was larger: divergence
                raise HarnessError(
                    "divergent replay: deviation %r out of menu %d at point %d (%s)" % (a, n, i, kind)
                )
        elif i < len(self.script):
            a = self.script[i]
            if a >= n or a < 0:
                raise HarnessError(
                    "divergent replay: answer %r out of menu %d at point %d (%s)" % (a, n, i, kind)
                )
        else:
            a = default
        if self.expect is not None and i < len(self.expect):
            ek, en = self.expect[i]
            if ek != kind or en != n:
                raise HarnessError(
                    "divergent replay at point %d: expected (%s,%d) met (%s,%d)" % (i, ek, en, kind, n)
                )
        self.points.append((kind, n, a, default))
        self.counts[kind] = self.counts.get(kind, 0) + 1
        self.pos = i + 1
        return a

    def answers(self):
        return [p[2] for p in self.points]


def enumerate_scripts(run, prefix=(), max_exec=None, budget_kinds=None, k=None, deadline=None):
    """Enumerate, in lexicographic order, every script extending `prefix`.

    run(script, expect, changed_pos) -> list of points (kind, n, a, default) of that execution.
    `changed_pos` is the index of the first choice position whose answer differs from
    the previous execution (0 for the first): everything before it was already judged.

    Deviation bound: choice kinds in `budget_kinds` (None = no kind, "*" = every kind)
    may take a non-default answer (answer != 0) in at most `k` places per script; at a
    point where the budget is already used up by the prefix only the default is taken.
    With budget_kinds=None this is E-full; with "*" it is E-dev(k); mixed = E-ops with
    bounded environment deviations.
    Returns (executions, exhausted).
    """
    import time as _time

    script = list(prefix)
    expect = None
    changed = -1  # first execution: everything is new, judge from the very beginning
    n_exec = 0
    lp = len(prefix)

    def budgeted(kind):
        return budget_kinds is not None and (budget_kinds == "*" or kind in budget_kinds)

    while True:
        points = run(script, expect, changed)
        n_exec += 1
        if len(points) < lp:
            return n_exec, True
        if budget_kinds is not None:
            used = 0
            usedb = []
            for p in points:
                usedb.append(used)
                if p[2] != 0 and budgeted(p[0]):
                    used += 1
        i = len(points) - 1
        while i >= lp:
            kind, n, a = points[i][0], points[i][1], points[i][2]
            if a < n - 1:
                if budget_kinds is None or not budgeted(kind):
                    break
                # a budgeted point: moving to a+1 keeps/creates a deviation at i
                if usedb[i] < k:
                    break
            i -= 1
        if i < lp:
            return n_exec, True
        if max_exec is not None and n_exec >= max_exec:
            return n_exec, False
        if deadline is not None and _time.time() > deadline:
            return n_exec, False
        script = [p[2] for p in points[:i]] + [points[i][2] + 1]
        expect = [(p[0], p[1]) for p in points[: i + 1]]
        changed = i


def script_hash(obj):
    return hashlib.sha1(json.dumps(obj, sort_keys=True, default=str).encode()).hexdigest()[:12]

"""Differential oracles: a primary execution is shadowed by one or more *shadow*
instances that differ in exactly one respect (time labels, inserted get_last_point()
calls, an affine image of the domain).  The shadows receive the same rewards and the
same environment answers (the primary's RNG answers are replayed to them in order); the
oracle requires the shadow's points to be the (image of the) primary's points."""
import copy
import math

from . import configs
from .core import ChoiceSource, HarnessError, Violation
from .observe import algo_digest
from .seams import ExpansionRecorder, StepBudget
from .world import Oracle, seam


class ReplaySource(ChoiceSource):
    """Replays recorded RNG answers; a different question means the runs diverged."""

    def __init__(self):
        super().__init__()
        self.feed = []
        self.cur = 0
        self.diverged = None

    def push(self, points):
        self.feed.extend(points)

    def choose(self, kind, n, default=0):
        if self.cur >= len(self.feed):
            self.diverged = "asked for an extra random draw (%s, menu %d)" % (kind, n)
            raise _Diverged(self.diverged)
        k, m, a = self.feed[self.cur][:3]
        if k != kind or m != n:
            self.diverged = "asked (%s, menu %d) where the reference run asked (%s, menu %d)" % (kind, n, k, m)
            raise _Diverged(self.diverged)
        self.cur += 1
        return a

    def leftover(self):
        return len(self.feed) - self.cur


class _Diverged(Exception):
    pass


class Shadow:
    def __init__(self, name, cfg, label=None, fmap=None, exact=True, tol=0.0, queries=False, max_frac_bits=None):
        self.name = name
        self.cfg = cfg
        self.label = label or (lambda t: t)
        self.fmap = fmap or (lambda x: list(x))
        self.exact = exact
        self.tol = tol
        self.queries = queries
        self.src = ReplaySource()
        self.algo = None
        # a shadow whose map is exact only while coordinates have few fractional bits (large translations) is
        # retired for the rest of the execution once the reference run proposes a finer point
        self.max_frac_bits = max_frac_bits
        self.retired = False


class ShadowOracle(Oracle):
    """make_shadows(ctx) -> list of Shadow.  prop = property id used in violation names."""

    name = "shadow"

    def __init__(self, prop, make_shadows, compare_state=False, final_recommendation=True, learner_classes=None):
        self.prop = prop
        self.make_shadows = make_shadows
        self.compare_state = compare_state
        self.final_recommendation = final_recommendation
        self.learner_classes = learner_classes

    # -- helpers -------------------------------------------------------------------
    def _rng_points(self, ctx, a, b):
        return [p for p in ctx.src.points[a:b] if p[0] not in ("reward", "query", "op")]

    def _with(self, ctx, sh, fn):
        sm = seam()
        old = sm.src
        rec = ExpansionRecorder.ACTIVE
        sm.set_source(sh.src)
        ExpansionRecorder.ACTIVE = None
        try:
            return fn()
        except StepBudget.Hang:
            raise Violation("%s.hang" % self.prop, "shadow run '%s' did not return within the branch budget although the reference run did (round %d)"
                            % (sh.name, ctx.t), shadow=sh.name)
        except _Diverged as d:
            raise Violation("%s.diverge" % self.prop, "shadow run '%s' %s (round %d)" % (sh.name, d, ctx.t), shadow=sh.name)
        except (Violation, HarnessError):
            raise
        except Exception as e:  # noqa
            raise Violation("%s.crash" % self.prop, "shadow run '%s' raised %s: %s (round %d)" % (sh.name, type(e).__name__, e, ctx.t),
                            shadow=sh.name)
        finally:
            sm.set_source(old)
            ExpansionRecorder.ACTIVE = rec

    def _same(self, sh, x, y):
        """y (shadow) must be the image of x (primary)."""
        if x is None or y is None:
            return x is None and y is None
        fx = [float(v) for v in sh.fmap(x)]
        fy = [float(v) for v in y]
        if len(fx) != len(fy):
            return False
        if sh.exact:
            return fx == fy
        return all(abs(a - b) <= sh.tol * max(1.0, abs(a), abs(b)) for a, b in zip(fx, fy))

    # -- protocol ------------------------------------------------------------------
    def begin(self, ctx):
        self.shadows = self.make_shadows(ctx)
        self.mark = 0
        pts = self._rng_points(ctx, 0, ctx.src.pos)
        self.mark = ctx.src.pos
        for sh in self.shadows:
            sh.src.push(pts)
            sh.algo, sh.domain = self._with(ctx, sh, lambda: configs.build(sh.cfg, self.learner_classes))

    def after_pull(self, ctx):
        pts = self._rng_points(ctx, self.mark, ctx.src.pos)
        self.mark = ctx.src.pos
        for sh in self.shadows:
            if sh.max_frac_bits is not None and not sh.retired and ctx.x is not None:
                sc = float(2 ** sh.max_frac_bits)
                if any((float(v) * sc) != math.floor(float(v) * sc) for v in ctx.x):
                    sh.retired = True
                    ctx.extra["stats"].bump("shadows_retired_inexact")
        self.shadows = [sh for sh in self.shadows if not sh.retired]
        for sh in self.shadows:
            sh.src.push(pts)
            lab = sh.label(ctx.t)
            y = self._with(ctx, sh, lambda: sh.algo.pull(lab))
            if sh.src.leftover():
                raise Violation("%s.diverge" % self.prop, "shadow run '%s' made fewer random draws than the reference run (round %d)"
                                % (sh.name, ctx.t), shadow=sh.name)
            if ctx.judging and not self._same(sh, ctx.x, y):
                raise Violation("%s.point" % self.prop, "round %d: reference run proposes %r, shadow run '%s' proposes %r (expected %r)"
                                % (ctx.t, _fl(ctx.x), sh.name, _fl(y), _fl(sh.fmap(ctx.x)) if ctx.x is not None else None),
                                shadow=sh.name, round=ctx.t)
        ctx.extra["stats"].bump("shadow_pulls", len(self.shadows))

    def after_round(self, ctx):
        # choices made by *this* oracle (query plan) come after the round's reward
        pts = self._rng_points(ctx, self.mark, ctx.src.pos)
        self.mark = ctx.src.pos
        for sh in self.shadows:
            sh.src.push(pts)
            lab = sh.label(ctx.t)
            self._with(ctx, sh, lambda: sh.algo.receive_reward(lab, ctx.r))
            if sh.src.leftover():
                raise Violation("%s.diverge" % self.prop, "shadow run '%s' made fewer random draws than the reference run (round %d)"
                                % (sh.name, ctx.t), shadow=sh.name)
        for sh in self.shadows:
            if isinstance(sh.queries, tuple):
                # fixed plan ("every", m): one query after every m-th round, no choice point
                if ctx.t % sh.queries[1] == 0:
                    self._with(ctx, sh, lambda: sh.algo.get_last_point())
                    ctx.extra["stats"].bump("inserted_queries")
            elif sh.queries and ctx.t <= sh.queries:
                q = ctx.src.choose("query", 3)
                self.mark = ctx.src.pos
                for _ in range(q):
                    self._with(ctx, sh, lambda: sh.algo.get_last_point())
                    ctx.extra["stats"].bump("inserted_queries")

    def end(self, ctx):
        if self.compare_state:
            # one more pull on both (the run is over): it overwrites the top-level hand-out registers; the state is then
            # compared without the registers (path, curr_node, best_arm) that a query legitimately leaves pointing at a learner's next proposal
            sm = seam()
            old = sm.src
            rec = ExpansionRecorder.ACTIVE
            ExpansionRecorder.ACTIVE = None
            extra = ChoiceSource()
            sm.set_source(extra)
            try:
                x = ctx.algo.pull(ctx.t + 1)
            finally:
                sm.set_source(old)
                ExpansionRecorder.ACTIVE = rec
            a = algo_digest(ctx.algo, registers=False)
            for sh in self.shadows:
                sh.src.push(extra.points)
                y = self._with(ctx, sh, lambda: sh.algo.pull(sh.label(ctx.t + 1)))
                if not self._same(sh, x, y):
                    raise Violation("%s.point" % self.prop, "after the run the reference proposes %r, shadow run '%s' proposes %r"
                                    % (_fl(x), sh.name, _fl(y)), shadow=sh.name)
                if sh.exact and algo_digest(sh.algo, registers=False) != a:
                    raise Violation("%s.state" % self.prop, "final state of shadow run '%s' differs from the reference run's" % sh.name,
                                    shadow=sh.name)
            ctx.extra["stats"].bump("states_compared", len(self.shadows))
        if not self.final_recommendation:
            return
        # recommendations: the run is over, so both objects may be queried in place
        sm = seam()
        old = sm.src
        rec = ExpansionRecorder.ACTIVE
        ExpansionRecorder.ACTIVE = None
        try:
            sm.set_source(_Const())
            try:
                x = ctx.algo.get_last_point()
            except (StepBudget.Hang, Exception):
                return  # the primary cannot recommend yet (C01's business)
            for sh in self.shadows:
                sm.set_source(_Const())
                try:
                    y = sh.algo.get_last_point()
                except (StepBudget.Hang, Exception) as e:  # noqa
                    raise Violation("%s.recommend" % self.prop, "shadow run '%s' cannot recommend (%s) although the reference run can"
                                    % (sh.name, type(e).__name__), shadow=sh.name)
                if not self._same(sh, x, y):
                    raise Violation("%s.recommend" % self.prop, "reference run recommends %r, shadow run '%s' recommends %r"
                                    % (_fl(x), sh.name, _fl(y)), shadow=sh.name)
            ctx.extra["stats"].bump("recommendations_compared", len(self.shadows))
        finally:
            sm.set_source(old)
            ExpansionRecorder.ACTIVE = rec


class _Const(ChoiceSource):
    def choose(self, kind, n, default=0):
        return 0


def _fl(x):
    try:
        return [float(v) for v in x]
    except Exception:
        return x

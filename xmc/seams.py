"""Seams: the RNG seam (np.random.* answered from a ChoiceSource), the per-instance
make_children recorder, and the step budget (never-hangs decided deterministically).
No change to /repo is needed for any of them.
"""
import math
import sys

import numpy as np

from .core import HarnessError

UNIFORM_FRACTIONS = (1.0 / 3.0, 0.0, 0.5, 1.0 - 2.0 ** -20)
# menu entry 0 (the default answer) is 1/3: a random partition typically does NOT split at the midpoint (that case is
# what the deterministic partitions cover), so default runs have unequal children; entry 1 is the legal end-point draw.
NORMAL_STEPS = (0.0, -1.0, 1.0, -3.0, 3.0)

_REAL = {}
for _name in dir(np.random):
    _REAL[_name] = getattr(np.random, _name)

_ENUMERATED = ("randint", "uniform", "choice", "normal", "random", "random_sample", "ranf", "sample", "rand", "randn",
               "standard_normal")
_PASS = ("seed", "get_state", "set_state", "default_rng", "RandomState", "Generator", "SeedSequence",
         "BitGenerator", "MT19937", "PCG64", "PCG64DXSM", "Philox", "SFC64", "bit_generator", "mtrand",
         "test", "get_bit_generator", "set_bit_generator")


class RngSeam:
    """Context manager: while active, np.random.{randint,uniform,choice,normal} are
    answered by `src` (a ChoiceSource); any other drawing entry point is counted as
    unenumerated and falls through to the real generator."""

    def __init__(self, src, uniform_fractions=UNIFORM_FRACTIONS):
        self.src = src
        self.fr = uniform_fractions
        self.unenumerated = 0
        self.choice_log = []  # (p, population, answer) of every np.random.choice call
        self.state_before = None

    def set_source(self, src):
        self.src = src

    # --- replacements -------------------------------------------------------------
    def _sized(self, size, draw, dtype=float):
        """A block draw is answered as that many scalar draws, in order (each its own choice point)."""
        shape = (int(size),) if not isinstance(size, (tuple, list)) else tuple(int(v) for v in size)
        n = 1
        for v in shape:
            n *= v
        if n > 4096:
            raise HarnessError("a block of %d random numbers is not enumerated by the seam" % n)
        return np.array([draw() for _ in range(n)], dtype=dtype).reshape(shape)

    def randint(self, low, high=None, size=None, dtype=int):
        if size is not None:
            return self._sized(size, lambda: self.randint(low, high), dtype=dtype)
        if high is None:
            low, high = 0, low
        n = int(high) - int(low)
        if n <= 0:
            raise ValueError("low >= high")
        if n == 1:
            return int(low)
        # the menu is rotated by the number of earlier randint choice points of this execution, so that
        # the default answer (entry 0) does not always pick the same split dimension / descent direction;
        # every value stays reachable (entry a -> value (a + k) mod n)
        src = self.src
        k = getattr(src, "_nrand", 0)
        try:
            src._nrand = k + 1
        except AttributeError:
            pass
        return int(low) + (self.src.choose("randint", n) + k) % n

    def uniform(self, low=0.0, high=1.0, size=None):
        if size is not None:
            if np.ndim(low) or np.ndim(high):
                raise HarnessError("np.random.uniform with array bounds is not enumerated by the seam")
            return self._sized(size, lambda: self.uniform(low, high))
        a = self.src.choose("uniform", len(self.fr))
        f = self.fr[a]
        lo = float(low)
        hi = float(high)
        x = lo + f * (hi - lo)
        # keep the answer between the bounds as numpy does (also when they are given in reverse order)
        a, b = (lo, hi) if lo <= hi else (hi, lo)
        if x > b:
            x = b
        if x < a:
            x = a
        return x

    def choice(self, a, size=None, replace=True, p=None):
        if size is not None:
            raise HarnessError("np.random.choice with size= is not enumerated by the seam")
        pop = list(range(a)) if isinstance(a, (int, np.integer)) else list(a)
        if len(pop) == 0:
            raise ValueError("'a' cannot be empty unless no samples are taken")
        if p is None:
            idx = self.src.choose("choice", len(pop))
            self.choice_log.append((None, pop, idx))
            return pop[idx]
        p_in = np.asarray(p)
        pv = np.asarray(p, dtype=float)
        # the validation numpy performs (mtrand.pyx): same exceptions, same wording
        if pv.ndim != 1:
            raise ValueError("'p' must be 1-dimensional")
        if pv.size != len(pop):
            raise ValueError("'a' and 'p' must have same size")
        if np.isnan(pv).any():
            raise ValueError("probabilities contain NaN")
        if (pv < 0).any():
            raise ValueError("probabilities are not non-negative")
        atol = np.sqrt(np.finfo(np.float64).eps)
        if np.issubdtype(p_in.dtype, np.floating) and p_in.dtype.itemsize < 8:
            atol = max(atol, np.sqrt(np.finfo(p_in.dtype).eps))  # numpy relaxes the tolerance for float32/16 input
        s = float(np.sum(pv))  # numpy uses Kahan summation; plain sum is within 1 ulp * n
        if abs(s - 1.0) > atol:
            raise ValueError("probabilities do not sum to 1")
        cdf = np.cumsum(pv)
        support = [i for i in range(len(pop)) if pv[i] > 0 and (i == 0 or cdf[i] > cdf[i - 1])]  # reachable by inverse-cdf sampling
        k = self.src.choose("choice", len(support))
        idx = support[k]
        self.choice_log.append((list(map(float, pv)), pop, idx))
        return pop[idx]

    # the other scalar draws of the legacy interface are answered from the same menus (none is used by the
    # library today; a change that starts using one is then still owned by the harness)
    def random(self, size=None):
        if size is not None:
            raise HarnessError("np.random.random with size= is not enumerated by the seam")
        return min(self.uniform(0.0, 1.0), 1.0 - 2.0 ** -53)

    random_sample = ranf = sample = random

    def rand(self, *shape):
        if shape:
            raise HarnessError("np.random.rand with a shape is not enumerated by the seam")
        return self.random()

    def randn(self, *shape):
        if shape:
            raise HarnessError("np.random.randn with a shape is not enumerated by the seam")
        return self.normal(0.0, 1.0)

    def standard_normal(self, size=None):
        return self.normal(0.0, 1.0, size)

    def state_sig(self):
        """Cheap signature of the REAL global generator: it must not move while the seam is installed."""
        st = _REAL["get_state"]()
        return (st[2], int(st[1][0]), int(st[1][1]), int(st[1][-1]), st[3], st[4])

    def normal(self, loc=0.0, scale=1.0, size=None):
        if size is not None:
            raise HarnessError("np.random.normal with size= is not enumerated by the seam")
        a = self.src.choose("normal", len(NORMAL_STEPS))
        return float(loc) + NORMAL_STEPS[a] * float(scale)

    # --- install / remove ------------------------------------------------------------
    def _fallthrough(self, name):
        real = _REAL[name]

        def f(*a, **k):
            self.unenumerated += 1
            return real(*a, **k)

        return f

    def __enter__(self):
        self.state_before = _REAL["get_state"]()
        self._replaced = []
        for name in _ENUMERATED:
            setattr(np.random, name, getattr(self, name))
            self._replaced.append(name)
        for name, real in _REAL.items():
            if name.startswith("_") or name in _ENUMERATED or name in _PASS:
                continue
            if callable(real) and not isinstance(real, type):
                setattr(np.random, name, self._fallthrough(name))
                self._replaced.append(name)
        return self

    def __exit__(self, *exc):
        for name in self._replaced:
            setattr(np.random, name, _REAL[name])
        after = _REAL["get_state"]()
        b = self.state_before
        if not (b[0] == after[0] and np.array_equal(b[1], after[1]) and b[2:] == after[2:]):
            if self.unenumerated == 0:
                raise HarnessError("the real NumPy generator advanced although no un-enumerated draw was seen")
        return False


class ExpansionRecorder:
    """Records every make_children call made while it is the active recorder:
    (partition, parent, newlayer, parent_was_leaf, old/new children, round).
    The five partition classes' make_children are wrapped once per process *in memory*
    (class attribute, nothing in /repo changes); instances stay free of closures so that
    deepcopy of an algorithm object is safe."""

    ACTIVE = None
    _installed = False

    def __init__(self):
        self.calls = []
        self.round = 0

    def activate(self):
        ExpansionRecorder.install()
        ExpansionRecorder.ACTIVE = self

    def attach(self, partition, tag=None):  # kept for API compatibility: nothing to do
        return

    @classmethod
    def install(cls):
        if cls._installed:
            return
        from PyXAB.partition.BinaryPartition import BinaryPartition
        from PyXAB.partition.RandomBinaryPartition import RandomBinaryPartition
        from PyXAB.partition.DimensionBinaryPartition import DimensionBinaryPartition
        from PyXAB.partition.KaryPartition import KaryPartition
        from PyXAB.partition.RandomKaryPartition import RandomKaryPartition

        for pc in (BinaryPartition, RandomBinaryPartition, DimensionBinaryPartition, KaryPartition, RandomKaryPartition):
            orig = pc.__dict__.get("make_children")
            if orig is None:
                raise HarnessError("cannot observe: %s does not define make_children" % pc.__name__)

            def wrap(orig):
                def make_children(self, parent, newlayer=False):
                    rec = ExpansionRecorder.ACTIVE
                    if rec is None:
                        return orig(self, parent, newlayer=newlayer)
                    old = parent.get_children()
                    orig(self, parent, newlayer=newlayer)
                    rec.calls.append(
                        {
                            "partition": self,
                            "parent": parent,
                            "newlayer": bool(newlayer),
                            "was_leaf": old is None,
                            "old_children": old,
                            "children": parent.get_children(),
                            "round": rec.round,
                            "depth_before": parent.get_depth(),
                        }
                    )

                make_children.__wrapped__ = orig
                return make_children

            pc.make_children = wrap(orig)
        cls._installed = True

    def since(self, n):
        return self.calls[n:]


class StepBudget:
    """Deterministic never-hangs decision: counts backward jumps / branches executed in
    code objects that live under the repository's PyXAB package, per API call, using
    sys.monitoring (3.12+).  A call that exceeds `limit` events raises Hang."""

    class Hang(BaseException):
        pass

    def __init__(self, repo_pkg_dir, limit=2_000_000):
        self.dir = repo_pkg_dir
        self.limit = limit
        self.count = 0
        self.max_seen = 0
        self.active = False
        self.tool = None

    def install(self):
        mon = sys.monitoring
        self.tool = mon.PROFILER_ID
        try:
            mon.use_tool_id(self.tool, "xmc-stepbudget")
        except ValueError:
            mon.free_tool_id(self.tool)
            mon.use_tool_id(self.tool, "xmc-stepbudget")
        ev = mon.events
        codes = []
        seen = set()

        def add_code(co):
            if id(co) in seen:
                return
            seen.add(id(co))
            if not co.co_filename.startswith(self.dir):
                return
            codes.append(co)
            for c in co.co_consts:
                if hasattr(c, "co_code"):
                    add_code(c)

        for name, mod in list(sys.modules.items()):
            if not name.startswith("PyXAB") or mod is None:
                continue
            for obj in list(vars(mod).values()):
                self._collect(obj, add_code, set())
        for co in codes:
            mon.set_local_events(self.tool, co, ev.JUMP | ev.BRANCH)
        mon.register_callback(self.tool, ev.JUMP, self._cb)
        mon.register_callback(self.tool, ev.BRANCH, self._cb)
        self.ncodes = len(codes)
        self.active = True

    def _collect(self, obj, add_code, seen):
        if id(obj) in seen:
            return
        seen.add(id(obj))
        co = getattr(obj, "__code__", None)
        if co is not None and hasattr(co, "co_filename"):
            add_code(co)
        if isinstance(obj, type) and getattr(obj, "__module__", "").startswith("PyXAB"):
            for v in list(vars(obj).values()):
                f = getattr(v, "__func__", v)
                self._collect(f, add_code, seen)

    def _cb(self, code, off, dst):
        self.count += 1
        if self.count > self.limit:
            self.count = 0
            raise StepBudget.Hang()

    def reset(self):
        if self.count > self.max_seen:
            self.max_seen = self.count
        self.count = 0

    def uninstall(self):
        if not self.active:
            return
        mon = sys.monitoring
        mon.register_callback(self.tool, mon.events.JUMP, None)
        mon.register_callback(self.tool, mon.events.BRANCH, None)
        mon.free_tool_id(self.tool)
        self.active = False

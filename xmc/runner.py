"""Pool runner, violation confirmation, known findings, evidence files."""
import json
import multiprocessing as mp
import os
import sys
import time
import traceback

from .core import HarnessError, script_hash
from .world import Stats, _jsonable

VERIF = os.path.dirname(os.path.dirname(os.path.abspath(__file__)))
EVID = os.environ.get("XMC_EVIDENCE_DIR") or os.path.join(VERIF, "evidence")
REPLAYS = os.environ.get("XMC_REPLAY_DIR") or os.path.join(VERIF, "replays")
KNOWN = os.path.join(VERIF, "known_findings.json")


def _worker(args):
    modname, task = args
    import importlib

    mod = importlib.import_module(modname)
    try:
        _t = time.time()
        if os.environ.get("XMC_TIMING") == "2":
            print("    start %s" % task.get("label"), flush=True)
        from . import world as _w

        if _w._GUARD:
            _w._GUARD.reset()  # the branch budget never carries over from an earlier task of this worker
        st = mod.run_task(task)
        st.task_error = None
        if os.environ.get("XMC_TIMING"):
            print("    task %s: %.1fs %d exec" % (task.get("label"), time.time() - _t, st.executions), flush=True)
    except HarnessError as e:
        st = Stats()
        st.task_error = "HarnessError in task %r: %s" % (task.get("label", task), e)
    except BaseException:  # noqa: also the hang guard's BaseException, so that a pool worker never dies
        st = Stats()
        st.task_error = "exception in task %r:\n%s" % (task.get("label", task), traceback.format_exc())
    return st


def run_pool(modname, tasks, workers=None, progress=True):
    workers = workers or int(os.environ.get("XMC_WORKERS", "0")) or min(16, os.cpu_count() or 4)
    total = Stats()
    errors = []
    t0 = time.time()
    if workers == 1 or len(tasks) <= 1:
        for t in tasks:
            st = _worker((modname, t))
            if st.task_error:
                errors.append(st.task_error)
            total.merge(st)
        return total, errors
    ctx = mp.get_context("fork")
    with ctx.Pool(workers) as pool:
        done = 0
        for st in pool.imap_unordered(_worker, [(modname, t) for t in tasks], chunksize=1):
            done += 1
            if st.task_error:
                errors.append(st.task_error)
            total.merge(st)
            if progress and (done % max(1, len(tasks) // 10) == 0):
                print("  .. %d/%d tasks, %d executions, %.0fs" % (done, len(tasks), total.executions, time.time() - t0),
                      flush=True)
    return total, errors


def load_known():
    if not os.path.exists(KNOWN):
        return {"findings": [], "fixed": []}
    with open(KNOWN) as f:
        return json.load(f)


def match_known(prop, viol, known):
    """A violation matches a known finding when property, oracle and every key of the
    finding's `match` dict agree with the violation record (config predicate)."""
    for kf in known.get("findings", []):
        if kf["property"] != prop:
            continue
        m = kf["match"]
        if "oracle" in m and m["oracle"] != viol.get("oracle"):
            continue
        if "algo" in m and m["algo"] != viol["config"].get("algo"):
            continue
        if "algo_in" in m and viol["config"].get("algo") not in m["algo_in"]:
            continue
        if "error_contains" in m and m["error_contains"] not in viol.get("message", ""):
            continue
        if "where" in m and m["where"] != viol.get("details", {}).get("where"):
            continue
        pred = m.get("predicate")
        if pred and not _pred(pred, viol):
            continue
        return kf
    return None


def _pred(pred, viol):
    cfg = viol["config"]
    p = cfg.get("params", {})
    d = len(cfg.get("domain", []))
    from .configs import arity

    import math

    def gpo_N(p):
        n, rm = p["rounds"], p["rhomax"]
        return int(math.ceil(0.5 * (math.log(2) / math.log(1 / rm)) * math.log((n / 2) / math.log(n / 2))))

    def gpo_L(p):
        return int(math.floor(p["rounds"] / (2 * gpo_N(p))))

    env = {"gpo_N": gpo_N, "gpo_L": gpo_L, "cfg": cfg, "p": p, "d": d, "part": cfg.get("part"), "K": cfg.get("K"),
           "arity": arity(cfg) if cfg.get("part") else None, "details": viol.get("details", {}), "T": viol.get("T")}
    return bool(eval(pred, {"__builtins__": {}}, env))


def _warm_up(replay_fn, all_tasks, exclude_cfg=None):
    """Run every distinct configuration of the check once (default answers, short horizon) in THIS process, so that
    a failure that needs earlier instances in the same process (state shared between instances: class attributes,
    module-level caches) can be confirmed by replay.  The reported violation is then the concrete sequence
    'warm-up executions, then the script' of the real code."""
    seen = set()
    n = 0
    for t in all_tasks or []:
        if "cfg" not in t:
            continue
        key = script_hash(t["cfg"])
        if key in seen or (exclude_cfg is not None and key == script_hash(exclude_cfg)):
            continue
        seen.add(key)
        t2 = dict(t, T=min(int(t.get("T", 8)), 12))
        for k in ("prefix", "max_exec"):
            t2.pop(k, None)
        try:
            replay_fn(t2, [])
            n += 1
        except Exception:  # noqa
            pass
    return n


def _confirm_after_warmup(prop, tier, seed, v):
    import subprocess
    import tempfile

    rec = {"property": prop, "oracle": v["oracle"], "message": v["message"], "config": v["config"], "script": v["script"],
           "T": v.get("T"), "details": v.get("details"), "task": v.get("task"), "needs_warmup": True, "tier": tier, "seed": int(seed)}
    fd, path = tempfile.mkstemp(prefix="xmc_confirm_", suffix=".json")
    try:
        with os.fdopen(fd, "w") as f:
            json.dump(_jsonable(rec), f)
        for _ in range(2):
            p = subprocess.run([sys.executable, "-W", "ignore", "-m", "xmc.cli", "replay", path], cwd=VERIF, capture_output=True,
                               text=True, timeout=900, env=dict(os.environ, PYTHONHASHSEED="0"))
            if p.returncode != 1 or ("oracle=%s" % v["oracle"]) not in p.stdout:
                return False
        return True
    except Exception:  # noqa
        return False
    finally:
        try:
            os.unlink(path)
        except OSError:
            pass


def finish(prop, tier, seed, level, stats, errors, t0, rule, assumptions, replay_fn=None, bounds=None,
           vacuity=None, extra=None, all_tasks=None):
    """Confirm violations (two replays), match known findings, write evidence, print the
    verdict lines, return the exit code."""
    os.makedirs(EVID, exist_ok=True)
    os.makedirs(REPLAYS, exist_ok=True)
    known = load_known()
    exit_code = 0
    if errors:
        for e in errors[:5]:
            print("HARNESS-ERROR property=%s %s" % (prop, e), flush=True)
        exit_code = 2
    new_viol = []
    known_hit = {}
    flaky = []
    all_v = list(stats.violations) + [dict(v, count=n) for v, n in stats.soft.values()]
    # group identical failures (same oracle, algorithm, partition, parameters, box dimension): the first of
    # each group is confirmed by two replays, the others are counted with it
    groups = {}
    for v in all_v:
        c = v["config"]
        det = v.get("details") if isinstance(v.get("details"), dict) else {}
        kf = match_known(prop, v, known)
        # message class: the message without numbers, so that "round 3" and "round 5" of one failure group together
        import re as _re

        mclass = _re.sub(r"[-+]?[0-9][0-9.e+-]*", "#", v.get("message", ""))[:160]
        key = (kf["id"] if kf else None, v["oracle"], c.get("algo"), c.get("part"), c.get("K"),
               json.dumps(c.get("params"), sort_keys=True, default=str), len(c.get("domain", [])), det.get("where"), det.get("early"),
               det.get("exc"), mclass)
        g = groups.get(key)
        if g is None:
            groups[key] = [v, v.get("count", 1)]
        else:
            g[1] += v.get("count", 1)
    warmed = [False]

    def confirm(v):
        ok = []
        for _ in range(2):
            try:
                res = replay_fn(v["task"], v["script"])
            except HarnessError as e:
                res = ["HarnessError: %s" % e]
            ok.append(any((not isinstance(r, str)) and r["oracle"] == v["oracle"] for r in res))
        return all(ok)

    for v, cnt in groups.values():
        if replay_fn is not None and "task" in v:
            good = confirm(v)
            if not good and all_tasks and not (extra or {}).get("flaky_is_violation"):
                # the failure may need earlier instances in the same process: confirm it twice in a fresh process
                # that first executes every OTHER configuration of this check once, then the script
                good = _confirm_after_warmup(prop, tier, seed, v)
                if good:
                    v["message"] = "(after other instances lived in the same process: state is shared between instances) " + v["message"]
                    v["needs_warmup"] = True
            if not good:
                if (extra or {}).get("flaky_is_violation") and v["oracle"].endswith(".repro"):
                    # for the reproducibility property a failure that does not reproduce IS the failure
                    v = dict(v, message="(not reproducible on replay) " + v["message"])
                    new_viol.append(v)
                    continue
                flaky.append(v)
                continue
        kf = match_known(prop, v, known)
        if kf is not None:
            known_hit.setdefault(kf["id"], [kf, 0])
            known_hit[kf["id"]][1] += cnt
        else:
            new_viol.append(v)
    if flaky:
        print("HARNESS-ERROR property=%s flaky failure (did not reproduce on replay): %s" % (prop, flaky[0]["message"][:300]))
        if not new_viol:
            exit_code = 2
    for kid, (kf, n) in sorted(known_hit.items()):
        print("KNOWN-FINDING: property=%s %s [%s] (%d executions)" % (prop, kf["what"], kid, n))
    seen_keys = set()
    for v in new_viol:
        key = (v["oracle"], v["config"].get("algo"), v["config"].get("part"))
        if key in seen_keys and len(seen_keys) > 0:
            continue
        seen_keys.add(key)
        h = script_hash([v["config"], v["script"], v["oracle"]])
        path = os.path.join(REPLAYS, "%s-%s.json" % (prop, h))
        rec = {"property": prop, "oracle": v["oracle"], "message": v["message"], "config": v["config"],
               "script": v["script"], "T": v.get("T"), "details": v.get("details"), "task": v.get("task"),
               "needs_warmup": bool(v.get("needs_warmup")), "tier": tier, "seed": int(seed)}
        with open(path, "w") as f:
            json.dump(_jsonable(rec), f, indent=1)
        print("VIOLATION property=%s replay=%s" % (prop, path))
        print("  oracle=%s config=%s" % (v["oracle"], json.dumps(_jsonable(v["config"]))))
        print("  %s" % v["message"])
        exit_code = 1  # a confirmed violation decides the verdict, also when some other task had a harness error
        if len(seen_keys) >= 8:
            break
    if vacuity and exit_code == 0:
        for key, why in vacuity:
            if stats.counters.get(key, 0) == 0:
                print("HARNESS-ERROR property=%s vacuous exploration: counter %s is zero (%s)" % (prop, key, why))
                exit_code = 2
    if stats.counters.get("crashed_executions", 0) and exit_code == 0 and not (extra or {}).get("crashes_ok"):
        print("NOTE property=%s: %d executions ended in an exception of the code under check (C01's business); first: %s"
              % (prop, stats.counters["crashed_executions"], stats.crashes[:1]))
    cov = {
        "states": len(stats.states),
        "transitions": len(stats.transitions),
        "traces_validated_against_impl": stats.executions,
        "evaluations": stats.executions,
        "distinct_nontrivial": len(stats.nontrivial),
        "rule": rule,
        "samples": stats.samples[:6] if stats.samples else [{"note": "no sample recorded"}],
        "exhaustive": bool(stats.exhaustive),
        "judged_rounds": stats.judged_rounds,
        "distinct_outcomes": len(stats.outcomes),
        "choice_points_by_kind": stats.choice_kinds,
        "structural_counters": stats.counters,
        "max_tree_depth": stats.max_depth,
        "ambiguous_rounds": stats.ambiguous,
        "caps_hit": stats.caps[:10],
        "bounds": bounds or {},
        "known_findings_matched": {k: n for k, (kf, n) in known_hit.items()},
        "crashed_executions": stats.counters.get("crashed_executions", 0),
        "harness_errors": errors[:5],
    }
    if stats.caps and all("violations" in str(c.get("cap", "")) for c in stats.caps) and not new_viol:
        cov["exhaustive_note"] = ("every enumeration that was cut was cut because all executions of that configuration fail at the same "
                                  "point with a listed known finding (see known_findings_matched); all other enumerations ran to completion")
    if extra:
        cov.update({k: v for k, v in extra.items() if k not in ("crashes_ok", "flaky_is_violation")})
    ev = {"property_id": prop, "tier": tier, "seed": int(seed), "level": level, "coverage": _jsonable(cov),
          "assumptions": assumptions, "wall_s": round(time.time() - t0, 2), "violations": len(new_viol)}
    with open(os.path.join(EVID, "%s.json" % prop), "w") as f:
        json.dump(ev, f, indent=1)
    print("%s %s tier=%s seed=%s: executions=%d states=%d transitions=%d outcomes=%d nontrivial=%d exhaustive=%s wall=%.1fs -> exit %d"
          % (prop, "OK" if exit_code == 0 else "FAIL", tier, seed, stats.executions, len(stats.states),
             len(stats.transitions), len(stats.outcomes), len(stats.nontrivial), stats.exhaustive,
             time.time() - t0, exit_code), flush=True)
    return exit_code

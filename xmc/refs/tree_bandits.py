"""Reference checker for T-HOO / HCT / VHCT (C05: optimistic index and descent; C06:
growth rule), written from docs/.../HCT.png (Azar et al., Algorithm 1), Bubeck et al.'s
truncated HOO and the property statements.  Used as a *checker*: every decision of the
implementation is tested for admissibility under the published rule; ties and the
degrees of freedom listed in DESIGN.md 2.3 are resolved in the implementation's favour.
"""
import math

from ..adapters import _attr, close, kind_of
from ..core import HarnessError, Violation
from ..observe import cell_id, reachable
from ..world import Oracle

INF = float("inf")
TOL = 1e-9


def epoch(t):
    """t+ = 2^epoch(t): smallest power of two >= t."""
    e = 0
    while (1 << e) < t:
        e += 1
    return e


def ceil_set(x):
    """Admissible values of ceil(x): both roundings when x is within 1e-9 of an integer."""
    r = round(x)
    if abs(x - r) <= 1e-9 * max(1.0, abs(x)):
        return {r, r + 1}
    return {math.ceil(x)}


class TreeBanditOracle(Oracle):
    name = "tree_bandit"

    def __init__(self, which):
        self.which = which  # "C05" | "C06"

    # ------------------------------------------------------------------ parameters
    def begin(self, ctx):
        algo = ctx.algo
        self.kind = kind_of(algo)
        p = ctx.cfg["params"]
        self.nu = float(p.get("nu", 1))
        self.rho = float(p.get("rho", 0.5))
        self.P = algo.partition
        self.root = self.P.get_root()
        self.led = {}  # id(node) -> [node, rewards]
        self.ep = {}  # id(node) -> set of admissible epochs of the stored U
        self.t = 1
        self.okA = True  # refresh placed before the traversal of round t = t+
        self.okB = True  # refresh placed after the traversal (inside the update)
        self.pending = None
        self.node_count = None
        st = ctx.extra["stats"]
        if self.kind == "T_HOO":
            self.n = float(p.get("rounds", 1000))
            x = (math.log(self.n) / 2 - math.log(1 / self.nu)) / math.log(1 / self.rho)
            self.Dset = ceil_set(x)
        else:
            self.c = float(p.get("c", 0.1))
            self.delta = float(p.get("delta", 0.01))
            self.bound = float(p.get("bound", 1))
            self.c1 = (self.rho / (3 * self.nu)) ** (1.0 / 8)
            if self.c1 * self.delta > 0.5:
                raise HarnessError("parameter set outside the explored alphabet: c1*delta > 1/2 (cap of delta~ undefined)")
        # construction: the root is split once, children fresh
        if self.which == "C06" and ctx.judging:
            calls = [c for c in ctx.rec.calls if c["partition"] is self.P]
            if len(calls) != 1 or calls[0]["parent"] is not self.root:
                raise Violation("C06.init", "the root is not split exactly once at construction (%d splits)" % len(calls))
            self._fresh(calls[0]["children"], "construction")

    def _fresh(self, children, where):
        for c in children:
            if c.get_visited_times() != 0 or c.get_u_value() != INF or c.get_b_value() != INF:
                raise Violation("C06.fresh", "new cell %r does not start with zero pulls and infinite U/B (T=%r,U=%r,B=%r) %s"
                                % (cell_id(c), c.get_visited_times(), c.get_u_value(), c.get_b_value(), where))

    # ------------------------------------------------------------------ formulas
    def lnd(self, e):
        return math.log(1.0 / (self.c1 * self.delta / (2.0 ** e)))

    def stats_of(self, node):
        e = self.led.get(id(node))
        rew = e[1] if e else []
        T = len(rew)
        if T == 0:
            return 0, 0.0, 1e-3
        m = sum(rew) / T
        v = max(sum((x - m) ** 2 for x in rew) / T, 1e-3)
        return T, m, v

    def mag(self, node):
        e = self.led.get(id(node))
        return max((abs(x) for x in e[1]), default=0.0) if e else 0.0

    def U(self, node, e):
        T, m, v = self.stats_of(node)
        if T == 0:
            return INF
        h = node.get_depth()
        if self.kind == "T_HOO":
            return m + math.sqrt(2 * math.log(self.n) / T) + self.nu * self.rho ** h
        L = self.lnd(e)
        if self.kind == "HCT":
            return m + self.nu * self.rho ** h + self.c * math.sqrt(L / T)
        return m + self.nu * self.rho ** h + self.c * math.sqrt(2 * v * L / T) + 3 * self.bound * self.c ** 2 * L / T

    def tau_set(self, node, e, var=None):
        """Admissible thresholds of a cell at epoch e (set of integers)."""
        h = node.get_depth()
        base = self.c ** 2 * self.lnd(e) * self.rho ** (-2 * h) / self.nu ** 2
        if self.kind == "HCT":
            return ceil_set(base)
        if var is None:
            var = self.stats_of(node)[2]
        b = self.bound * self.nu * self.rho ** h
        return ceil_set((var + 3 * b + var * math.sqrt(1 + 6 * b / var)) * base)

    # ------------------------------------------------------------------ B-values from stored U
    def ref_B(self, Uof):
        """B-values bottom-up from a U assignment (dict id->U) over the reachable tree."""
        levels = reachable(self.P)
        B = {}
        for lvl in reversed(levels):
            for n in lvl:
                u = Uof(n)
                ch = n.get_children()
                if ch is None:
                    B[id(n)] = u
                else:
                    B[id(n)] = min(u, max(B[id(c)] for c in ch))
        return B, levels

    # ------------------------------------------------------------------ pull
    def after_pull(self, ctx):
        algo = ctx.algo
        reg = list(_attr(algo, "path"))
        if not reg:
            raise HarnessError("cannot observe: the path register is empty")
        # the register names the pulled cell; the descent itself is re-derived from the tree (a register that
        # omits the root or is stored leaf-first describes the same descent)
        self.pulled = max(reg, key=lambda n: n.get_depth())
        path = []
        n = self.pulled
        while n is not None:
            path.append(n)
            n = n.get_parent()
        path.reverse()
        self.path = path
        # variance of the pulled cell before the update (VHCT threshold ambiguity)
        self.var_before = self.stats_of(self.pulled)[2]
        self.T_before = self.stats_of(self.pulled)[0]
        t = self.t
        e = epoch(t)
        judging = ctx.judging and self.which == "C05"
        if self.which != "C05":
            return
        st = ctx.extra["stats"]
        if judging and self.pending is not None:
            # stored values that did not match right after the previous round may be recomputed lazily at the next
            # pull: they are judged again now, as the descent has consumed them
            self.pending = None
            self._check_values(ctx, t - 1, defer=False)
        if not judging and not (self.kind != "T_HOO" and t == (1 << e)):
            return
        if path[0] is not self.root:
            raise Violation("C05.path", "the pulled cell is not in the tree rooted at the partition's root (round %d)" % t)
        if judging:
            if list(map(float, ctx.x)) != list(map(float, self.pulled.get_cpoint())):
                raise Violation("C05.path", "returned point %r is not the representative of the pulled cell %r" % (ctx.x, cell_id(self.pulled)))
            if len(path) < 2:
                # the root itself: admissible only where the published rule stops there (HCT/VHCT: T_root < tau_0)
                T = self.stats_of(self.root)[0]
                if self.kind == "T_HOO" or not any(T < tau for tau in self.tau_set(self.root, e)):
                    raise Violation("C05.path", "the root itself was pulled although the stopping rule does not stop there (round %d)" % t)
                st.bump("root_pulls")
                return
        elif len(path) < 2:
            return
        # B-values the traversal may have used: (B) as stored after the previous round;
        # (A) after a refresh at the start of a round with t = t+ (HCT/VHCT only)
        Bb, levels = self.ref_B(lambda n: float(n.get_u_value()))
        variants = [("B", Bb)]
        if self.kind != "T_HOO" and t == (1 << e):
            Ba, _ = self.ref_B(lambda n: self.U(n, e))
            variants.append(("A", Ba))
            if judging:
                st.bump("refresh_rounds")
        okv = {}
        for name, B in variants:
            ok = True
            for a, b in zip(path, path[1:]):
                ch = a.get_children()
                best = max(B[id(c)] for c in ch)
                vb = B[id(b)]
                if not (vb == best or close(vb, best, TOL, self.mag(b))):
                    ok = False
                    self._why = ("at cell %r the descent moved to child %r with B=%r while a sibling has B=%r (round %d)"
                                 % (cell_id(a), cell_id(b), vb, best, t))
                    break
            okv[name] = ok
        if len(variants) == 1:
            if judging and not okv["B"]:
                raise Violation("C05.descent", self._why, round=t)
        else:
            # the whole run must be consistent with ONE placement of the refresh: flags are kept over all rounds
            self.okA = self.okA and okv["A"]
            self.okB = self.okB and okv["B"]
            if judging and not (self.okA or self.okB):
                raise Violation("C05.descent", self._why + " [under either placement of the power-of-two refresh]", round=t)
        if not judging:
            return
        # stopping rule
        last = self.pulled
        if self.kind == "T_HOO":
            if last.get_children() is not None:
                raise Violation("C05.stop", "T-HOO pulled the internal cell %r (round %d)" % (cell_id(last), t))
        else:
            for n in path[1:-1]:
                T = self.stats_of(n)[0]
                if not any(T >= tau for tau in self.tau_set(n, e)):
                    raise Violation("C05.stop", "descent passed through cell %r although T=%d is below its threshold %r (round %d)"
                                    % (cell_id(n), T, sorted(self.tau_set(n, e)), t))
            if last.get_children() is not None:
                T = self.stats_of(last)[0]
                if not any(T < tau for tau in self.tau_set(last, e)):
                    raise Violation("C05.stop", "descent stopped at internal cell %r although T=%d has reached its threshold %r (round %d)"
                                    % (cell_id(last), T, sorted(self.tau_set(last, e)), t))
                st.bump("stops_at_internal_cell")
        if len(path) > 2:
            st.bump("descents_deeper_than_1")

    # ------------------------------------------------------------------ round
    def after_round(self, ctx):
        t = self.t
        e = epoch(t)
        cell = self.pulled
        # ledger under the crediting rule (C04): T-HOO credits the whole path
        cells = self.path if self.kind == "T_HOO" else [cell]
        for n in cells:
            en = self.led.get(id(n))
            if en is None:
                en = self.led[id(n)] = [n, []]
            en[1].append(ctx.r)
        if self.kind != "T_HOO":
            if t == (1 << e):
                for nid, (n, rew) in self.led.items():
                    self.ep[nid] = {e}
            # the pulled cell's U is recomputed with delta~ of round t or t+1 (t is incremented
            # before / after the update in the published / implemented order)
            self.ep[id(cell)] = {e, epoch(t + 1)}
            if (t + 1) == (1 << epoch(t + 1)):
                # "recomputed when the round counter reaches a power of two": a refresh at the moment the incremented
                # counter reaches 2^k (end of round t) is admissible too
                for nid in self.led:
                    self.ep.setdefault(nid, set()).add(epoch(t + 1))
        self.t = t + 1
        if not ctx.judging:
            return
        st = ctx.extra["stats"]
        if self.which == "C05":
            self._check_values(ctx, t, defer=True)
        else:
            self._check_growth(ctx, t, e)

    def _check_values(self, ctx, t, defer=False):
        try:
            self._check_values_now(ctx, t)
        except Violation as v:
            if defer:
                self.pending = v  # judged again at the next pull, when the descent consumes the values
                ctx.extra["stats"].bump("value_checks_deferred")
                return
            raise

    def _check_values_now(self, ctx, t):
        levels = reachable(self.P)
        Uref = {}
        for lvl in levels[1:]:
            for n in lvl:
                u = float(n.get_u_value())
                T = self.stats_of(n)[0]
                if n.get_visited_times() != T:
                    # a different history than the one observed: C04's business, the index cannot be judged
                    ctx.extra["stats"].bump("unjudgeable_rounds_count_mismatch")
                    return
                if T == 0:
                    if u != INF:
                        raise Violation("C05.U", "unvisited cell %r has finite U=%r (round %d)" % (cell_id(n), u, t))
                else:
                    if self.kind == "T_HOO":
                        cands = [self.U(n, 0)]
                    else:
                        cands = [self.U(n, e) for e in sorted(self.ep.get(id(n), ()))]
                    if not any(close(u, c, TOL, self.mag(n)) for c in cands):
                        raise Violation("C05.U", "cell %r (T=%d) stores U=%r, the published index gives %r (round %d)"
                                        % (cell_id(n), T, u, cands, t), round=t)
                Uref[id(n)] = u
        Uref[id(self.root)] = INF  # the root's own index never limits a descent
        B, _ = self.ref_B(lambda n: Uref[id(n)])
        for lvl in levels[1:]:
            for n in lvl:
                b = float(n.get_b_value())
                want = B[id(n)]
                if not (b == want or close(b, want, TOL, self.mag(n))):
                    raise Violation("C05.B", "cell %r stores B=%r, min(U, max children B) gives %r (round %d)"
                                    % (cell_id(n), b, want, t), round=t)
        ctx.extra["stats"].bump("value_checks")

    def _check_growth(self, ctx, t, e):
        st = ctx.extra["stats"]
        calls = [c for c in ctx.round_calls() if c["partition"] is self.P]
        cell = self.pulled
        if len(calls) > 1:
            raise Violation("C06.one", "%d expansions in one round (round %d)" % (len(calls), t))
        expanded = len(calls) == 1
        if expanded:
            c = calls[0]
            if c["parent"] is not cell:
                raise Violation("C06.where", "round %d expanded cell %r, the pulled cell is %r" % (t, cell_id(c["parent"]), cell_id(cell)))
            if not c["was_leaf"]:
                raise Violation("C06.leaf", "round %d re-expanded cell %r which already had children" % (t, cell_id(cell)))
            self._fresh(c["children"], "(round %d)" % t)
            st.bump("expansions")
        # growth that bypasses make_children would be invisible to the recorder: the number of reachable cells
        # may only change by the children of the recorded call
        count = sum(len(l) for l in reachable(self.P))
        if self.node_count is not None and count != self.node_count + (len(calls[0]["children"]) if expanded else 0):
            raise Violation("C06.count", "round %d: the tree went from %d to %d cells but %d cell(s) were created through the partition"
                            % (t, self.node_count, count, len(calls[0]["children"]) if expanded else 0))
        self.node_count = count
        was_leaf = (not expanded and cell.get_children() is None) or (expanded and calls[0]["was_leaf"])
        h = cell.get_depth()
        if self.kind == "T_HOO":
            verdicts = {h <= D for D in self.Dset}
            # the root is always split once at construction, so depth 1 is legitimate whatever the bound
            depth_ok = any(self.P.get_depth() <= max(1, D + 1) for D in self.Dset)
            if not depth_ok:
                raise Violation("C06.depth", "tree depth %d exceeds the truncation depth %r + 1" % (self.P.get_depth(), sorted(self.Dset)))
            if h > max(self.Dset) - 1:
                st.bump("truncation_reached")
        else:
            T = self.stats_of(cell)[0]  # after the update
            verdicts = set()
            for ee in (e, epoch(t + 1)):
                for var in ((None,) if self.kind == "HCT" else (self.var_before, None)):
                    for tau in self.tau_set(cell, ee, var):
                        verdicts.add(was_leaf and T >= tau)
            if not was_leaf:
                verdicts = {False}
        if len(verdicts) > 1:
            st.ambiguous += 1
            return
        want = verdicts.pop()
        if want and not expanded:
            raise Violation("C06.rule", "round %d: pulled leaf %r (depth %d, T=%d) met the expansion rule but was not expanded"
                            % (t, cell_id(cell), h, self.stats_of(cell)[0]), round=t)
        if expanded and not want:
            raise Violation("C06.rule", "round %d: cell %r (depth %d, T=%d) was expanded although the published rule does not allow it"
                            % (t, cell_id(cell), h, self.stats_of(cell)[0]), round=t)
        st.bump("growth_checks")

"""Reference checker for T-HOO / HCT / VHCT (C05: optimistic index and descent; C06:
growth rule), written from docs/.../HCT.png (Azar et al., Algorithm 1), Bubeck et al.'s
truncated HOO and the property statements.  Used as a *checker*: every decision of the
implementation is tested for admissibility under the published rule; ties and the
degrees of freedom listed in DESIGN.md 2.3 are resolved in the implementation's favour.
"""
import math

from ..adapters import _attr, close, kind_of
from ..core import HarnessError, Violation
from ..observe import cell_id, reachable
from ..world import Oracle

INF = float("inf")
TOL = 1e-9


def epoch(t):
    """t+ = 2^epoch(t): smallest power of two >= t."""
    e = 0
    while (1 << e) < t:
        e += 1
    return e


def ceil_set(x):
    """Admissible values of ceil(x): both roundings when x is within 1e-9 of an integer."""
    r = round(x)
    if abs(x - r) <= 1e-9 * max(1.0, abs(x)):
        return {r, r + 1}
    return {math.ceil(x)}


class TreeBanditOracle(Oracle):
    name = "tree_bandit"

    def __init__(self, which):
        self.which = which  # "C05" | "C06"

    # ------------------------------------------------------------------ parameters
    def begin(self, ctx):
        algo = ctx.algo
        self.kind = kind_of(algo)
        p = ctx.cfg["params"]
        self.nu = float(p.get("nu", 1))
        self.rho = float(p.get("rho", 0.5))
        self.P = algo.partition
        self.root = self.P.get_root()
        self.led = {}  # id(node) -> [node, rewards]
        self.ep = {}  # id(node) -> set of admissible epochs of the stored U
        self.t = 1
        self.okA = True  # refresh placed before the traversal of round t = t+
        self.okB = True  # refresh placed after the traversal (inside the update)
        st = ctx.extra["stats"]
        if self.kind == "T_HOO":
            self.n = float(p.get("rounds", 1000))
            x = (math.log(self.n) / 2 - math.log(1 / self.nu)) / math.log(1 / self.rho)
            self.Dset = ceil_set(x)
        else:
            self.c = float(p.get("c", 0.1))
            self.delta = float(p.get("delta", 0.01))
            self.bound = float(p.get("bound", 1))
            self.c1 = (self.rho / (3 * self.nu)) ** (1.0 / 8)
            if self.c1 * self.delta > 0.5:
                raise HarnessError("parameter set outside the explored alphabet: c1*delta > 1/2 (cap of delta~ undefined)")
        # construction: the root is split once, children fresh
        if self.which == "C06" and ctx.judging:
            calls = [c for c in ctx.rec.calls if c["partition"] is self.P]
            if len(calls) != 1 or calls[0]["parent"] is not self.root:
                raise Violation("C06.init", "the root is not split exactly once at construction (%d splits)" % len(calls))
            self._fresh(calls[0]["children"], "construction")

    def _fresh(self, children, where):
        for c in children:
            if c.get_visited_times() != 0 or c.get_u_value() != INF or c.get_b_value() != INF:
                raise Violation("C06.fresh", "new cell %r does not start with zero pulls and infinite U/B (T=%r,U=%r,B=%r) %s"
                                % (cell_id(c), c.get_visited_times(), c.get_u_value(), c.get_b_value(), where))

    # ------------------------------------------------------------------ formulas
    def lnd(self, e):
        return math.log(1.0 / (self.c1 * self.delta / (2.0 ** e)))

    def stats_of(self, node):
        e = self.led.get(id(node))
        rew = e[1] if e else []
        T = len(rew)
        if T == 0:
            return 0, 0.0, 1e-3
        m = sum(rew) / T
        v = max(sum((x - m) ** 2 for x in rew) / T, 1e-3)
        return T, m, v

    def U(self, node, e):
        T, m, v = self.stats_of(node)
        if T == 0:
            return INF
        h = node.get_depth()
        if self.kind == "T_HOO":
            return m + math.sqrt(2 * math.log(self.n) / T) + self.nu * self.rho ** h
        L = self.lnd(e)
        if self.kind == "HCT":
            return m + self.nu * self.rho ** h + self.c * math.sqrt(L / T)
        return m + self.nu * self.rho ** h + self.c * math.sqrt(2 * v * L / T) + 3 * self.bound * self.c ** 2 * L / T

    def tau_set(self, node, e, var=None):
        """Admissible thresholds of a cell at epoch e (set of integers)."""
        h = node.get_depth()
        base = self.c ** 2 * self.lnd(e) * self.rho ** (-2 * h) / self.nu ** 2
        if self.kind == "HCT":
            return ceil_set(base)
        if var is None:
            var = self.stats_of(node)[2]
        b = self.bound * self.nu * self.rho ** h
        return ceil_set((var + 3 * b + var * math.sqrt(1 + 6 * b / var)) * base)

    # ------------------------------------------------------------------ B-values from stored U
    def ref_B(self, Uof):
        """B-values bottom-up from a U assignment (dict id->U) over the reachable tree."""
        levels = reachable(self.P)
        B = {}
        for lvl in reversed(levels):
            for n in lvl:
                u = Uof(n)
                ch = n.get_children()
                if ch is None:
                    B[id(n)] = u
                else:
                    B[id(n)] = min(u, max(B[id(c)] for c in ch))
        return B, levels

    # ------------------------------------------------------------------ pull
    def after_pull(self, ctx):
        algo = ctx.algo
        path = list(_attr(algo, "path"))
        self.path = path
        self.pulled = path[-1]
        # variance of the pulled cell before the update (VHCT threshold ambiguity)
        self.var_before = self.stats_of(self.pulled)[2]
        self.T_before = self.stats_of(self.pulled)[0]
        if not ctx.judging or self.which != "C05":
            return
        t = self.t
        e = epoch(t)
        st = ctx.extra["stats"]
        if path[0] is not self.root:
            raise Violation("C05.path", "the descent does not start at the root (round %d)" % t)
        if len(path) < 2:
            raise Violation("C05.path", "the root itself was pulled (round %d)" % t)
        for a, b in zip(path, path[1:]):
            ch = a.get_children()
            if ch is None or not any(c is b for c in ch):
                raise Violation("C05.path", "path step %r -> %r is not parent -> child (round %d)" % (cell_id(a), cell_id(b), t))
        if list(map(float, ctx.x)) != list(map(float, self.pulled.get_cpoint())):
            raise Violation("C05.path", "returned point %r is not the representative of the pulled cell %r" % (ctx.x, cell_id(self.pulled)))
        # B-values the traversal may have used: (B) as stored after the previous round;
        # (A) after a refresh at the start of a round with t = t+ (HCT/VHCT only)
        Bb, levels = self.ref_B(lambda n: float(n.get_u_value()))
        variants = [("B", Bb)]
        if self.kind != "T_HOO" and t == (1 << e):
            Ba, _ = self.ref_B(lambda n: self.U(n, e))
            variants.append(("A", Ba))
            st.bump("refresh_rounds")
        okv = {}
        for name, B in variants:
            ok = True
            for a, b in zip(path, path[1:]):
                ch = a.get_children()
                best = max(B[id(c)] for c in ch)
                vb = B[id(b)]
                if not (vb == best or close(vb, best, TOL)):
                    ok = False
                    self._why = ("at cell %r the descent moved to child %r with B=%r while a sibling has B=%r (round %d)"
                                 % (cell_id(a), cell_id(b), vb, best, t))
                    break
            okv[name] = ok
        if len(variants) == 1:
            if not okv["B"]:
                raise Violation("C05.descent", self._why, round=t)
        else:
            self.okA = self.okA and okv["A"]
            self.okB = self.okB and okv["B"]
            if not (self.okA or self.okB):
                raise Violation("C05.descent", self._why + " [under either placement of the power-of-two refresh]", round=t)
        # stopping rule
        last = self.pulled
        if self.kind == "T_HOO":
            if last.get_children() is not None:
                raise Violation("C05.stop", "T-HOO pulled the internal cell %r (round %d)" % (cell_id(last), t))
        else:
            for n in path[1:-1]:
                T = self.stats_of(n)[0]
                if not any(T >= tau for tau in self.tau_set(n, e)):
                    raise Violation("C05.stop", "descent passed through cell %r although T=%d is below its threshold %r (round %d)"
                                    % (cell_id(n), T, sorted(self.tau_set(n, e)), t))
            if last.get_children() is not None:
                T = self.stats_of(last)[0]
                if not any(T < tau for tau in self.tau_set(last, e)):
                    raise Violation("C05.stop", "descent stopped at internal cell %r although T=%d has reached its threshold %r (round %d)"
                                    % (cell_id(last), T, sorted(self.tau_set(last, e)), t))
                st.bump("stops_at_internal_cell")
        if len(path) > 2:
            st.bump("descents_deeper_than_1")

    # ------------------------------------------------------------------ round
    def after_round(self, ctx):
        t = self.t
        e = epoch(t)
        cell = self.pulled
        # ledger under the crediting rule (C04): T-HOO credits the whole path
        cells = self.path if self.kind == "T_HOO" else [cell]
        for n in cells:
            en = self.led.get(id(n))
            if en is None:
                en = self.led[id(n)] = [n, []]
            en[1].append(ctx.r)
        if self.kind != "T_HOO":
            if t == (1 << e):
                for nid, (n, rew) in self.led.items():
                    self.ep[nid] = {e}
            # the pulled cell's U is recomputed with delta~ of round t or t+1 (t is incremented
            # before / after the update in the published / implemented order)
            self.ep[id(cell)] = {e, epoch(t + 1)}
        self.t = t + 1
        if not ctx.judging:
            return
        st = ctx.extra["stats"]
        if self.which == "C05":
            self._check_values(ctx, t)
        else:
            self._check_growth(ctx, t, e)

    def _check_values(self, ctx, t):
        levels = reachable(self.P)
        Uref = {}
        for lvl in levels[1:]:
            for n in lvl:
                u = float(n.get_u_value())
                T = self.stats_of(n)[0]
                if n.get_visited_times() != T:
                    # C04's business; the index cannot be judged on a different history
                    raise Violation("C05.count", "cell %r has pull count %r, the history gives %d (round %d)"
                                    % (cell_id(n), n.get_visited_times(), T, t))
                if T == 0:
                    if u != INF:
                        raise Violation("C05.U", "unvisited cell %r has finite U=%r (round %d)" % (cell_id(n), u, t))
                else:
                    if self.kind == "T_HOO":
                        cands = [self.U(n, 0)]
                    else:
                        cands = [self.U(n, e) for e in sorted(self.ep.get(id(n), ()))]
                    if not any(close(u, c, TOL) for c in cands):
                        raise Violation("C05.U", "cell %r (T=%d) stores U=%r, the published index gives %r (round %d)"
                                        % (cell_id(n), T, u, cands, t), round=t)
                Uref[id(n)] = u
        Uref[id(self.root)] = INF  # the root's own index never limits a descent
        B, _ = self.ref_B(lambda n: Uref[id(n)])
        for lvl in levels[1:]:
            for n in lvl:
                b = float(n.get_b_value())
                want = B[id(n)]
                if not (b == want or close(b, want, TOL)):
                    raise Violation("C05.B", "cell %r stores B=%r, min(U, max children B) gives %r (round %d)"
                                    % (cell_id(n), b, want, t), round=t)
        ctx.extra["stats"].bump("value_checks")

    def _check_growth(self, ctx, t, e):
        st = ctx.extra["stats"]
        calls = [c for c in ctx.round_calls() if c["partition"] is self.P]
        cell = self.pulled
        if len(calls) > 1:
            raise Violation("C06.one", "%d expansions in one round (round %d)" % (len(calls), t))
        expanded = len(calls) == 1
        if expanded:
            c = calls[0]
            if c["parent"] is not cell:
                raise Violation("C06.where", "round %d expanded cell %r, the pulled cell is %r" % (t, cell_id(c["parent"]), cell_id(cell)))
            if not c["was_leaf"]:
                raise Violation("C06.leaf", "round %d re-expanded cell %r which already had children" % (t, cell_id(cell)))
            self._fresh(c["children"], "(round %d)" % t)
            st.bump("expansions")
        was_leaf = (not expanded and cell.get_children() is None) or (expanded and calls[0]["was_leaf"])
        h = cell.get_depth()
        if self.kind == "T_HOO":
            verdicts = {h <= D for D in self.Dset}
            depth_ok = any(self.P.get_depth() <= D + 1 for D in self.Dset)
            if not depth_ok:
                raise Violation("C06.depth", "tree depth %d exceeds the truncation depth %r + 1" % (self.P.get_depth(), sorted(self.Dset)))
            if h > max(self.Dset) - 1:
                st.bump("truncation_reached")
        else:
            T = self.stats_of(cell)[0]  # after the update
            verdicts = set()
            for ee in (e, epoch(t + 1)):
                for var in ((None,) if self.kind == "HCT" else (self.var_before, None)):
                    for tau in self.tau_set(cell, ee, var):
                        verdicts.add(was_leaf and T >= tau)
            if not was_leaf:
                verdicts = {False}
        if len(verdicts) > 1:
            st.ambiguous += 1
            return
        want = verdicts.pop()
        if want and not expanded:
            raise Violation("C06.rule", "round %d: pulled leaf %r (depth %d, T=%d) met the expansion rule but was not expanded"
                            % (t, cell_id(cell), h, self.stats_of(cell)[0]), round=t)
        if expanded and not want:
            raise Violation("C06.rule", "round %d: cell %r (depth %d, T=%d) was expanded although the published rule does not allow it"
                            % (t, cell_id(cell), h, self.stats_of(cell)[0]), round=t)
        st.bump("growth_checks")

"""Reference checker for VROOM (C13), from the property statement and VROOM.png: rank
permutation per depth, rank-based probabilities handed to the sampler, drawn cell,
credited path and returned point."""
import math

from ..adapters import _attr, close, in_box
from ..core import HarnessError, Violation
from ..observe import cell_id
from ..world import Oracle

INF = float("inf")


class VroomOracle(Oracle):
    name = "C13"

    def begin(self, ctx):
        p = ctx.cfg["params"]
        self.n = p["n"]
        self.H = int(math.floor(math.log2(self.n)))
        self.cap = min(p.get("h_max", 100), self.n)
        self.delta = 4 * p["b"] / (p["f_max"] * math.sqrt(self.n))
        self.C = sum(1.0 / (h * l) for h in range(1, self.H + 1) for l in range(1, 2 ** h + 1))
        if 4 * self.n ** 3 / self.delta < 1:
            raise HarnessError("parameter set outside the explored alphabet: ln(4 n^3 / delta) < 0 (the confidence width is undefined)")
        self.rew = {}
        self.t = 0
        self.P = ctx.algo.partition

    def lcb(self, node):
        r = self.rew.get(id(node), ())
        if not r:
            return -INF
        return sum(r) / len(r) - math.sqrt(math.log(4 * self.n ** 3 / self.delta) / (2 * len(r)))

    def after_pull(self, ctx):
        self.t += 1
        t = self.t
        algo = ctx.algo
        ul = list(_attr(algo, "update_list"))
        self.ul = ul
        if not ctx.judging:
            return
        st = ctx.extra["stats"]
        log = ctx.seam.choice_log
        if not log:
            raise HarnessError("cannot observe: VROOM.pull made no np.random.choice call")
        pvec, pop, idx = log[-1]
        node_list = self.P.get_node_list()
        index = []
        for h in range(1, self.H + 1):
            lvl = node_list[h]
            if len(lvl) != 2 ** h:
                raise Violation("C13.levels", "depth %d holds %d cells, 2^h = %d expected for a binary-child partition" % (h, len(lvl), 2 ** h))
            ranks = []
            for nd in lvl:
                rk = nd.get_rank()
                if not rk:
                    raise Violation("C13.rank", "cell %r has no rank (round %d)" % (cell_id(nd), t))
                ranks.append(rk[-1])
            if sorted(ranks) != list(range(1, 2 ** h + 1)):
                raise Violation("C13.rank", "ranks at depth %d are %r, not a permutation of 1..%d (round %d)" % (h, ranks, 2 ** h, t))
            order = sorted(range(len(lvl)), key=lambda i: ranks[i])
            vals = [self.lcb(lvl[i]) for i in order]
            for a, b in zip(vals, vals[1:]):
                if a < b and not close(a, b):
                    raise Violation("C13.rank", "ranks at depth %d are not non-increasing in the lower confidence value: %r before %r (round %d)"
                                    % (h, a, b, t), round=t)
            for l, nd in enumerate(lvl):
                index.append((h, l, nd, ranks[l]))
        if pvec is None or len(pvec) != len(index):
            raise Violation("C13.prob", "the sampler was handed %r probabilities for %d cells (round %d)"
                            % (None if pvec is None else len(pvec), len(index), t))
        for (h, l, nd, rk), pv in zip(index, pvec):
            want = 1.0 / (h * rk * self.C)
            if not close(pv, want, 1e-9):
                raise Violation("C13.prob", "cell %r (depth %d, rank %d) is drawn with probability %r, 1/(h r C) = %r (round %d)"
                                % (cell_id(nd), h, rk, pv, want, t), round=t)
        if abs(sum(pvec) - 1.0) > 1e-9:
            raise Violation("C13.prob", "probabilities sum to %r (round %d)" % (sum(pvec), t))
        if list(pop) != list(range(len(index))):
            raise Violation("C13.prob", "the sampler's population is not the list of cell positions (round %d)" % t)
        drawn = index[idx][2]
        cur = _attr(algo, "curr_node")
        if cur is not drawn:
            raise Violation("C13.drawn", "the sampler answered cell %r but the algorithm went on with %r (round %d)"
                            % (cell_id(drawn), cell_id(cur), t))
        if not ul or ul[0] is not drawn:
            raise Violation("C13.path", "the credited path does not start at the drawn cell (round %d)" % t)
        for a, b in zip(ul, ul[1:]):
            ch = a.get_children()
            if ch is None or not any(c is b for c in ch):
                raise Violation("C13.path", "credited path step %r -> %r is not parent -> child (round %d)" % (cell_id(a), cell_id(b), t))
        want_depth = max(drawn.get_depth(), self.cap)
        if ul[-1].get_depth() != want_depth:
            raise Violation("C13.path", "the path from the drawn cell (depth %d) ends at depth %d, expected max(depth, cap=%d) (round %d)"
                            % (drawn.get_depth(), ul[-1].get_depth(), self.cap, t))
        if not in_box(ctx.x, ul[-1].get_domain()) or not in_box(ctx.x, drawn.get_domain()):
            raise Violation("C13.point", "returned point %r is outside the drawn cell %r / last path cell %r (round %d)"
                            % (ctx.x, drawn.get_domain(), ul[-1].get_domain(), t))
        st.bump("pulls_judged")
        if len(ul) > 1:
            st.bump("descents")
        if any(self.rew.get(id(nd)) for (_, _, nd, _) in index):
            st.bump("pulls_with_history")

    def after_round(self, ctx):
        for nd in self.ul:
            self.rew.setdefault(id(nd), []).append(ctx.r)
        if not ctx.judging:
            return
        for nd in self.ul:
            got = list(_attr(nd, "reward"))
            want = self.rew[id(nd)]
            if len(got) != len(want) or any(float(a) != float(b) for a, b in zip(got, want)):
                raise Violation("C13.credit", "cell %r holds rewards %r, the history credits %r (round %d)" % (cell_id(nd), got, want, self.t))

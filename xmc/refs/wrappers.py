"""Reference checkers for GPO/PCT/VPCT (C09, model of GPO.png) and POO (C10), driven
through recording learners (real T_HOO/HCT/VHCT subclasses or cheap stubs keeping the
class name the wrappers dispatch on)."""
import math

from .. import ledger as L
from ..adapters import _attr, close, kind_of
from ..core import HarnessError, Violation
from ..world import Oracle


def _pt(x):
    return None if x is None else tuple(map(float, x))


# ------------------------------------------------------------------ stub learners
_STUBS = {}


def stub_classes():
    """Learners that do no work: pull returns a point that identifies (learner, call #)."""
    if _STUBS:
        return _STUBS
    for name in ("T_HOO", "HCT", "VHCT"):
        def make(name):
            class S:
                def __init__(self, **k):
                    self._xmc_id = len(L.CURRENT.instances)
                    L.CURRENT.instances.append(self)
                    self._xmc_kwargs = dict(k)
                    self._n = 0
                    self._dom = k.get("domain")
                    L.CURRENT.events.append(("new", self._xmc_id, L.CURRENT.phase, dict(k)))

                def pull(self, time):
                    lo, hi = self._dom[0]
                    # a point inside the box that encodes (learner, number of rewards so far)
                    u = ((self._xmc_id * 37 + self._n * 11) % 997 + 1) / 999.0
                    x = [lo + u * (hi - lo)] + [(a + b) / 2 for a, b in self._dom[1:]]
                    L.CURRENT.events.append(("pull", self._xmc_id, L.CURRENT.phase, x))
                    return x

                def receive_reward(self, time, reward):
                    self._n += 1
                    L.CURRENT.events.append(("reward", self._xmc_id, L.CURRENT.phase, reward, []))

                def get_last_point(self):
                    return self.pull(0)

            S.__name__ = name
            S.__qualname__ = name
            return S

        _STUBS[name] = make(name)
    return _STUBS


def gpo_N(n, rhomax):
    Dmax = math.log(2) / math.log(1 / rhomax)
    return int(math.ceil(0.5 * Dmax * math.log((n / 2) / math.log(n / 2))))


# ------------------------------------------------------------------ GPO
class GpoOracle(Oracle):
    """Model of GPO.png.  WHEN a learner object is constructed is not prescribed (at construction of the wrapper, at
    the start of its phase, when the previous phase ends): what is checked is which learner SERVES each phase, with
    which parameters, for how many rounds, which rewards it receives, and how the validated point is scored."""

    name = "C09"

    def begin(self, ctx):
        algo = ctx.algo
        self.inner = algo.algorithm if kind_of(algo) in ("PCT", "VPCT") else algo
        p = ctx.cfg["params"]
        self.n = p["rounds"]
        self.rm = p["rhomax"]
        self.numax = p.get("numax", 1.0)
        self.N = gpo_N(self.n, self.rm)
        self.Lh = self.n // (2 * self.N)
        if self.Lh == 0:
            raise HarnessError("floor(n/2N) = 0: outside C09's statement (finding D11 of C01)")
        self.log = L.CURRENT
        self.seen = 0
        self.t = 0
        self.val = {}  # phase index (0-based) -> validation rewards
        self.validated = {}  # phase index -> the point under validation (own record)
        self.learner_rewards = {}
        self.last_point = {}
        self.kwargs = {}  # learner id -> constructor kwargs
        self.server = {}  # phase (1-based) -> learner id
        self.log.phase = "pull"
        for e in self.log.events:
            if e[0] == "new":
                self.kwargs[e[1]] = e[3]

    def _events(self):
        ev = self.log.events[self.seen:]
        self.seen = len(self.log.events)
        ev = [e for e in ev if e[2] != "query"]
        for e in ev:
            if e[0] == "new":
                self.kwargs[e[1]] = e[3]
        return ev

    def _best(self, x):
        """x must be the own-recorded validated point of a phase whose validation score is maximal (scores of completed
        validations, or including a running one: both are admitted)."""
        done = {k: sum(r) / len(r) for k, r in self.val.items() if len(r) >= self.Lh}
        anyv = {k: sum(r) / len(r) for k, r in self.val.items()}
        for score in (done, anyv):
            if not score:
                continue
            best = max(score.values())
            if any(close(s, best, 1e-9, max(abs(v) for v in self.val[k])) and self.validated.get(k) == x for k, s in score.items()):
                return True, best
        return False, (max(done.values()) if done else None)

    def after_pull(self, ctx):
        self.t += 1
        t = self.t
        ev = self._events()
        self.log.phase = "reward"
        j = ctx.judging
        N, Lh = self.N, self.Lh
        finished = t > 2 * N * Lh
        i = (t - 1) // (2 * Lh) + 1  # phase 1..N
        w = (t - 1) % (2 * Lh)  # position inside the phase
        self.phase_i, self.w, self.finished = i, w, finished
        pulls = [e for e in ev if e[0] == "pull"]
        self.pulls = pulls
        x = _pt(ctx.x)
        st = ctx.extra["stats"]
        if finished:
            if j:
                if pulls:
                    raise Violation("C09.finished", "a learner was consulted after all %d phases were over (round %d)" % (N, t))
                ok, best = self._best(x)
                if not ok:
                    raise Violation("C09.final", "after all phases pull returned %r, not a validated point of maximal score %r (round %d)"
                                    % (x, best, t), round=t)
                g = _pt(L_call("get_last_point", ctx.algo.get_last_point))
                okg, _ = self._best(g)
                if not okg:
                    raise Violation("C09.final", "after all phases get_last_point returned %r, not a validated point of maximal score (round %d)" % (g, t))
                st.bump("finished_rounds")
            return
        if w < Lh:
            # exploration round: exactly one learner is consulted - the phase's learner
            if len(pulls) != 1:
                if j:
                    raise Violation("C09.explore", "exploration round %d of phase %d: %d learners consulted (%r)"
                                    % (w + 1, i, len(pulls), [e[1] for e in pulls]), round=t)
                return
            lid = pulls[0][1]
            if w == 0:
                if j and lid in self.server.values():
                    raise Violation("C09.create", "phase %d of %d is served by learner #%d, which already served phase %r: no new learner"
                                    % (i, N, lid, [k for k, v in self.server.items() if v == lid]), round=t)
                self.server[i] = lid
                if j:
                    kw = self.kwargs.get(lid, {})
                    want = self.rm ** (2 * N / (2 * i + 1))
                    if kw.get("rho") is None or kw.get("nu") is None:
                        raise HarnessError("cannot observe the parameters learner #%d was built with (positional arguments?)" % lid)
                    if not close(kw.get("rho"), want, 1e-12) or not close(kw.get("nu"), self.numax, 1e-12):
                        raise Violation("C09.params", "learner of phase %d was built with (nu=%r, rho=%r), published (%r, %r)"
                                        % (i, kw.get("nu"), kw.get("rho"), self.numax, want), round=t)
                    rhos = [round(float(self.kwargs[l]["rho"]), 15) for l in self.server.values()]
                    if len(set(rhos)) != len(rhos):
                        raise Violation("C09.params", "learner parameters are not pairwise distinct: %r" % rhos)
                    st.bump("phases_started")
            elif j and lid != self.server.get(i):
                raise Violation("C09.explore", "exploration round %d of phase %d: learner #%r should serve it, learner #%d was consulted"
                                % (w + 1, i, self.server.get(i), lid), round=t)
            if j and _pt(pulls[0][3]) != x:
                raise Violation("C09.explore", "GPO returned %r, the learner proposed %r (round %d)" % (x, pulls[0][3], t))
            self.last_point[i] = x
        else:
            if w == Lh:
                self.validated[i - 1] = x
            if j:
                if pulls:
                    raise Violation("C09.validate", "validation round %d of phase %d consulted learner(s) %r" % (w - Lh + 1, i, [e[1] for e in pulls]), round=t)
                if x != self.last_point.get(i):
                    raise Violation("C09.validate", "validation round of phase %d returned %r, the learner's last proposed point is %r (round %d)"
                                    % (i, x, self.last_point.get(i), t), round=t)
                st.bump("validation_rounds")

    def after_round(self, ctx):
        t = self.t
        ev = self._events()
        self.log.phase = "pull"
        rewards = [e for e in ev if e[0] == "reward"]
        i, w, Lh = self.phase_i, self.w, self.Lh
        cur = self.server.get(i)
        if not self.finished and w >= Lh:
            self.val.setdefault(i - 1, []).append(ctx.r)
        for e in rewards:
            self.learner_rewards.setdefault(e[1], []).append(e[3])
        if not ctx.judging:
            return
        if [e for e in ev if e[0] == "pull"]:
            raise Violation("C09.route", "a learner was consulted inside receive_reward (round %d)" % t)
        if self.finished:
            if rewards:
                raise Violation("C09.finished", "a learner received a reward after all phases were over (round %d)" % t)
            return
        if w < Lh:
            if len(rewards) != 1 or rewards[0][1] != cur or float(rewards[0][3]) != float(ctx.r):
                raise Violation("C09.route", "exploration round %d of phase %d: the reward must go to learner #%r only; seen %r"
                                % (w + 1, i, cur, [(e[1], e[3]) for e in rewards]), round=t)
        else:
            if rewards:
                raise Violation("C09.route", "validation reward of phase %d was delivered to learner(s) %r" % (i, [e[1] for e in rewards]), round=t)
        if w == 2 * Lh - 1:
            # the phase is over: its learner served exactly L rounds, and its point is scored by the mean of exactly the
            # L validation rewards (a running mean kept during the phase is not prescribed)
            n_l = len(self.learner_rewards.get(cur, []))
            rew = self.val.get(i - 1, [])
            if n_l != Lh or len(rew) != Lh:
                raise Violation("C09.lengths", "phase %d ended with %d learner rounds and %d validation rewards, floor(n/2N) = %d"
                                % (i, n_l, len(rew), Lh), round=t)
            V = _attr(self.inner, "V_reward")
            want = sum(rew) / len(rew)
            if len(V) < i or not close(V[i - 1], want, 1e-9, max(abs(v) for v in rew)):
                raise Violation("C09.score", "score of phase %d is %r after its %d validation rewards of mean %r (scores kept: %d) (round %d)"
                                % (i, V[i - 1] if len(V) >= i else None, len(rew), want, len(V), t), round=t)
            ctx.extra["stats"].bump("phases_completed")
            if i == self.N:
                # all phases are over from this moment on (before any further pull): get_last_point must already answer with
                # a validated point of maximal score
                g = _pt(L_call("get_last_point", ctx.algo.get_last_point))
                okg, best = self._best(g)
                if not okg:
                    raise Violation("C09.final", "right after the last phase get_last_point returned %r, not a validated point of maximal score %r (round %d)"
                                    % (g, best, t), round=t)
                ctx.extra["stats"].bump("recommendations_right_after_last_phase")


def L_call(what, fn):
    from ..world import call_lib

    return call_lib(what, fn)


# ------------------------------------------------------------------ POO
class PooOracle(Oracle):
    name = "C10"

    def begin(self, ctx):
        p = ctx.cfg["params"]
        self.rm = p["rhomax"]
        self.numax = p.get("numax", 1)
        self.log = L.CURRENT
        self.seen = 0
        self.t = 0
        self.rew = {}
        self.rhos = {}
        self.log.phase = "pull"

    def _events(self):
        ev = self.log.events[self.seen:]
        self.seen = len(self.log.events)
        return [e for e in ev if e[2] != "query"]

    def _check_new(self, e, t):
        kw = e[3]
        rho = kw.get("rho")
        if not close(kw.get("nu"), self.numax, 1e-12):
            raise Violation("C10.params", "learner #%d built with nu=%r, nu_max=%r" % (e[1], kw.get("nu"), self.numax))
        if not (0 < rho < self.rm):
            raise Violation("C10.params", "learner #%d built with rho=%r outside (0, rho_max=%r)" % (e[1], rho, self.rm))
        # rho = rho_max^(2N/(2i+1)) for a power of two N and 0 <= i < N  <=>  ln rho / ln rho_max = 2N/(2i+1)
        q = math.log(rho) / math.log(self.rm)
        ok = False
        N = 1
        while N <= 4096 and not ok:
            # 2N/(2i+1) = q  ->  i = (2N/q - 1)/2
            i = (2 * N / q - 1) / 2
            if i > -1e-9 and i < N - 1 + 1e-9 and abs(i - round(i)) < 1e-6:
                ok = True
            N *= 2
        if not ok:
            raise Violation("C10.params", "learner #%d built with rho=%r which is not on the grid rho_max^(2N/(2i+1)) (round %d)" % (e[1], rho, t))
        for lid, r in self.rhos.items():
            if close(r, rho, 1e-12):
                raise Violation("C10.params", "learners #%d and #%d share rho=%r" % (lid, e[1], rho), round=t)
        self.rhos[e[1]] = rho

    def after_pull(self, ctx):
        self.t += 1
        t = self.t
        ev = self._events()
        self.log.phase = "reward"
        pulls = [e for e in ev if e[0] == "pull"]
        self.server = pulls[-1][1] if pulls else None
        for e in ev:
            if e[0] == "new":
                self._check_new(e, t) if ctx.judging else self.rhos.__setitem__(e[1], e[3].get("rho"))
        if not ctx.judging:
            return
        if len(pulls) != 1:
            raise Violation("C10.route", "round %d was served by %d learners (%r)" % (t, len(pulls), [e[1] for e in pulls]), round=t)
        if [e for e in ev if e[0] == "reward"]:
            raise Violation("C10.route", "a learner received a reward during pull (round %d)" % t)
        if _pt(pulls[0][3]) != _pt(ctx.x):
            raise Violation("C10.route", "POO returned %r, the serving learner proposed %r (round %d)" % (ctx.x, pulls[0][3], t))
        ctx.extra["stats"].bump("rounds_judged")

    def after_round(self, ctx):
        t = self.t
        ev = self._events()
        self.log.phase = "pull"
        rewards = [e for e in ev if e[0] == "reward"]
        for e in rewards:
            self.rew.setdefault(e[1], []).append(e[3])
        if not ctx.judging:
            for e in ev:
                if e[0] == "new":
                    self.rhos[e[1]] = e[3].get("rho")
            return
        st = ctx.extra["stats"]
        for e in ev:
            if e[0] == "new":
                self._check_new(e, t)  # WHEN a learner object is constructed is not prescribed
        if [e for e in ev if e[0] == "pull"]:
            raise Violation("C10.route", "a learner was consulted inside receive_reward (round %d)" % t)
        if len(rewards) != 1 or rewards[0][1] != self.server or float(rewards[0][3]) != float(ctx.r):
            raise Violation("C10.route", "round %d was served by learner #%r; its reward %r was delivered as %r"
                            % (t, self.server, ctx.r, [(e[1], e[3]) for e in rewards]), round=t)
        algo = ctx.algo
        V_algo = _attr(algo, "V_algo")
        V = _attr(algo, "V_reward")
        Tm = _attr(algo, "Times")
        if len(V_algo) != len(self.log.instances) or any(a is not b for a, b in zip(V_algo, self.log.instances)):
            raise Violation("C10.learners", "the learner list is not the list of learners created so far, in creation order (round %d)" % t)
        if len(V) != len(V_algo) or len(Tm) != len(V_algo):
            raise Violation("C10.score", "score/count lists do not match the learner list (round %d)" % t)
        for lid in range(len(V_algo)):
            r = self.rew.get(lid, [])
            want = sum(r) / len(r) if r else 0.0
            if Tm[lid] != len(r):
                raise Violation("C10.count", "learner #%d has recorded count %r, it received %d rewards (round %d)" % (lid, Tm[lid], len(r), t), round=t)
            if not close(V[lid], want, 1e-9, max((abs(v) for v in r), default=0.0)):
                raise Violation("C10.score", "learner #%d has score %r, the mean of its %d rewards is %r (round %d)" % (lid, V[lid], len(r), want, t), round=t)
        st.bump("scores_judged")
        if len(V_algo) > 1:
            st.bump("rounds_with_several_learners")
        # recommendation: next proposal of a learner of maximal score (every round while the run is
        # short, every 5th round later: the query pulls every best learner)
        if t > 12 and t % 5:
            return
        self.log.phase = "query"
        try:
            x = _pt(L_call("get_last_point", algo.get_last_point))
            best = max(float(v) for v in V)
            props = [_pt(L_call("pull", lambda l=lid: V_algo[l].pull(0))) for lid in range(len(V_algo)) if close(V[lid], best)]
        finally:
            self.log.phase = "pull"
            self.seen = len(self.log.events)
        if x not in props:
            raise Violation("C10.recommend", "get_last_point() returned %r; learners of maximal score propose %r (round %d)" % (x, props, t), round=t)
        st.bump("recommendations_judged")

"""C07 oracle: get_last_point() against the harness ledger of (point, reward) pairs."""
import math

from ..adapters import _attr, close, handed_cell, kind_of
from ..core import HarnessError, Violation
from ..observe import cell_id, reachable
from ..world import Oracle, call_lib
from .. import ledger as L

INF = float("inf")


def _pt(x):
    return tuple(map(float, x))


class RecommendOracle(Oracle):
    name = "C07"

    def begin(self, ctx):
        algo = ctx.algo
        self.kind = kind_of(algo)
        self.inner = algo.algorithm if self.kind in ("PCT", "VPCT") else algo
        self.ik = kind_of(self.inner)
        self.pairs = []  # (point, reward) of search evaluations
        self.cell_rew = {}  # id(cell) -> [cell, rewards]
        self.val = {}  # StroquOOL: id(candidate) -> rewards since validation began; GPO: index -> rewards
        self.validation = False
        self.log = L.CURRENT
        self.seen = 0
        self.learner_rew = {}
        if self.ik == "GPO":
            n, rm = self.inner.rounds, self.inner.rhomax
            Dmax = math.log(2) / math.log(1 / rm)
            self.N = int(math.ceil(0.5 * Dmax * math.log((n / 2) / math.log(n / 2))))
            self.Lh = int(math.floor(n / (2 * self.N)))

    def after_pull(self, ctx):
        k = self.ik
        self.search = True
        if k in ("DOO", "SOO", "StoSOO", "SequOOL", "StroquOOL"):
            if k == "SequOOL":
                # after the schedule is exhausted the domain centre is handed out; what the implementation keeps in its
                # register then is its own business (the root, None, the last child)
                root = ctx.algo.partition.get_root()
                try:
                    self.cell = handed_cell(ctx.algo)
                except Exception:  # noqa
                    self.cell = None
                pending = any(id(c) not in self.cell_rew for call in ctx.rec.calls for c in call["children"])
                at_centre = _pt(ctx.x) == _pt(root.get_cpoint())
                if self.cell is root or self.cell is None or (at_centre and not pending and ctx.rec.calls):
                    self.search = False
                    self.cell = root
            else:
                self.cell = handed_cell(ctx.algo)
            if k == "StroquOOL":
                if _attr(ctx.algo, "end"):
                    self.search = False
                elif _attr(ctx.algo, "candidate") and not self.validation:
                    self.validation = True
        elif k in ("POO", "GPO"):
            ev = self.log.events[self.seen:]
            self.seen = len(self.log.events)
            self.pull_ev = [e for e in ev if e[0] == "pull" and e[2] != "query"]

    def after_round(self, ctx):
        k = self.ik
        st = ctx.extra["stats"]
        if k in ("DOO", "SOO", "StoSOO", "SequOOL", "StroquOOL"):
            if self.search:
                if k == "StroquOOL" and self.validation:
                    self.val.setdefault(id(self.cell), [self.cell, []])[1].append(ctx.r)
                else:
                    self.pairs.append((_pt(ctx.x), ctx.r))
                    self.cell_rew.setdefault(id(self.cell), [self.cell, []])[1].append(ctx.r)
        else:
            ev = self.log.events[self.seen:]
            self.seen = len(self.log.events)
            for e in ev:
                if e[0] == "reward" and e[2] != "query":
                    self.learner_rew.setdefault(e[1], []).append(e[3])
            if k == "GPO" and ctx.t <= 2 * self.N * self.Lh:
                # own phase counter (published schedule), own record of the point under validation
                ph = (ctx.t - 1) // (2 * self.Lh)
                w = (ctx.t - 1) % (2 * self.Lh)
                if w >= self.Lh and not self.pull_ev:
                    self.val.setdefault(ph, []).append(ctx.r)
                    self.val_pt = getattr(self, "val_pt", {})
                    self.val_pt.setdefault(ph, _pt(ctx.x))
        if not ctx.judging:
            return
        self.judge(ctx)

    def end(self, ctx):
        # also when the run ended because pull had nothing left to propose (the last pull may have grown the tree)
        if ctx.t >= 1 and ctx.src.pos > ctx.changed_pos:
            self.judge(ctx)

    # ------------------------------------------------------------------
    def query(self, ctx):
        self.log.phase = "query"
        try:
            return call_lib("get_last_point", ctx.algo.get_last_point)
        finally:
            self.log.phase = "pull"
            self.seen = len(self.log.events)

    def judge(self, ctx):
        k = self.ik
        st = ctx.extra["stats"]
        t = ctx.t
        if k in ("DOO", "SOO", "SequOOL"):
            if not self.pairs:
                return
            x = _pt(self.query(ctx))
            best = max(r for _, r in self.pairs)
            mine = [r for p, r in self.pairs if p == x]
            if not mine:
                raise Violation("C07.evaluated", "get_last_point() returned %r which was never evaluated during the search "
                                "(evaluated: %d points, best reward %r) (round %d)" % (list(x), len(self.pairs), best, t), round=t)
            if not any(r == best for r in mine):
                raise Violation("C07.best", "get_last_point() returned %r with observed reward %r; another evaluated point has %r (round %d)"
                                % (list(x), mine, best, t), round=t)
            st.bump("recommendations_judged")
            if best <= 0:
                st.bump("nonpositive_histories")
        elif k == "StoSOO":
            x = _pt(self.query(ctx))
            levels = reachable(ctx.algo.partition)
            deepest = levels[-1]

            def mean(n):
                e = self.cell_rew.get(id(n))
                return sum(e[1]) / len(e[1]) if e and e[1] else 0.0

            best = max(mean(n) for n in deepest)
            ok = [n for n in deepest if close(mean(n), best) and _pt(n.get_cpoint()) == x]
            if not ok:
                raise Violation("C07.best", "StoSOO recommended %r which is not a deepest-level cell of maximal recorded mean %r (round %d)"
                                % (list(x), best, t), round=t)
            st.bump("recommendations_judged")
        elif k == "StroquOOL":
            if not self.validation:
                return  # before validation: finding D10 of C01
            cand = [c for c in _attr(ctx.algo, "candidate") if c is not None]
            means = {}
            for c in cand:
                e = self.val.get(id(c))
                if e and e[1]:
                    means[id(c)] = (c, sum(e[1]) / len(e[1]))
            if not means:
                return
            x = _pt(self.query(ctx))
            best = max(m for _, m in means.values())
            ok = [c for c, m in means.values() if close(m, best) and _pt(c.get_cpoint()) == x]
            if not ok:
                raise Violation("C07.best", "StroquOOL recommended %r, not a re-evaluated candidate of maximal validation mean %r (round %d)"
                                % (list(x), best, t), round=t)
            st.bump("recommendations_judged")
        elif k == "POO":
            if not self.learner_rew:
                return
            x = _pt(self.query(ctx))
            score = {lid: sum(r) / len(r) for lid, r in self.learner_rew.items()}
            # learners that exist but have no reward yet have score 0 (documented start value)
            for lid in range(len(self.log.instances)):
                score.setdefault(lid, 0.0)
            best = max(score.values())
            props = []
            self.log.phase = "query"
            try:
                for lid, s in score.items():
                    if close(s, best):
                        props.append(_pt(call_lib("pull", lambda l=lid: self.log.instances[l].pull(0))))
            finally:
                self.log.phase = "pull"
                self.seen = len(self.log.events)
            if x not in props:
                raise Violation("C07.best", "POO recommended %r; the learners of maximal score %r propose %r (round %d)"
                                % (list(x), best, props, t), round=t)
            st.bump("recommendations_judged")
        elif k == "GPO":
            if not self.val:
                return  # before the first validation: finding D10 of C01
            x = _pt(self.query(ctx))
            pts = getattr(self, "val_pt", {})
            # scores of the completed validations, or including the running one: both admitted
            done = {j: sum(r) / len(r) for j, r in self.val.items() if len(r) >= self.Lh}
            anyv = {j: sum(r) / len(r) for j, r in self.val.items()}
            ok = False
            for score in (done, anyv):
                if not score:
                    continue
                best = max(score.values())
                if any(close(s, best, 1e-9, max(abs(v) for v in self.val[j])) and pts.get(j) == x for j, s in score.items()):
                    ok = True
            if not ok:
                raise Violation("C07.best", "GPO recommended %r, not a validated point of maximal score (scores %r, points %r) (round %d)"
                                % (list(x), anyv, pts, t), round=t)
            st.bump("recommendations_judged")

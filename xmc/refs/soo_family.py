"""Reference checker for SOO / StoSOO / DOO (C08), written from the property statement
and docs/.../{SOO,StoSOO,DOO}.png.  The oracle keeps its own model of the tree (leaf
set per depth in creation order, evaluation ledger) updated from the recorded
make_children calls and the handed-out cells, and judges every expansion and every
hand-out against the published optimistic rule; any arg-max is accepted on ties."""
import math

from ..adapters import _attr, close, handed_cell, kind_of
from ..core import HarnessError, Violation
from ..observe import cell_id, reachable
from ..world import Oracle

INF = float("inf")


class SweepOracle(Oracle):
    name = "C08"

    def begin(self, ctx):
        algo = ctx.algo
        self.kind = kind_of(algo)
        p = ctx.cfg["params"]
        self.P = algo.partition
        root = self.P.get_root()
        self.order = [[root]]  # cells per depth in creation order
        self.is_leaf = {id(root): True}
        self.rew = {}  # id -> list of rewards (evaluations completed)
        self.handed = {}  # id -> number of times handed out
        self.t = 0
        n = p.get("n", 100)
        if self.kind == "StoSOO":
            k = p.get("k")
            self.k = math.ceil(n / (math.log(n) ** 3)) if k is None else k
            d = p.get("delta")
            self.delta = 1 / math.sqrt(n) if d is None else d
            self.n = n
        if self.kind in ("SOO", "StoSOO"):
            self.cap = p.get("h_max", 100)
        if self.kind == "DOO":
            self.user_delta = p.get("delta")
        if [c for c in ctx.rec.calls if c["partition"] is self.P]:
            raise Violation("C08.init", "the tree was grown before the first pull")

    # ----------------------------------------------------------------- helpers
    def evals(self, node):
        return len(self.rew.get(id(node), ()))

    def mean(self, node):
        r = self.rew.get(id(node), ())
        return sum(r) / len(r) if r else 0.0

    def b_sto(self, node):
        T = self.evals(node)
        if T == 0:
            return INF
        return self.mean(node) + math.sqrt(math.log(self.n * self.k / self.delta) / (2 * T))

    def value(self, node):
        """The quantity the expanded leaf must maximise."""
        if self.kind == "SOO":
            return self.rew[id(node)][-1]
        if self.kind == "StoSOO":
            return self.b_sto(node)
        return self.rew[id(node)][-1] + self.delta_at(node.get_depth())

    def near(self, a, b):
        """Equality of two values the statement compares.  SOO compares stored rewards: exact.  DOO (reward + diameter
        term) and StoSOO (mean + width) compute them: a few dozen ulps of their magnitude, whatever the size of the rewards
        (a relative 1e-9 would call rewards 1e12+42 and 1e12+80 equal)."""
        a = float(a)
        b = float(b)
        if a == b:
            return True
        if self.kind == "SOO" or not (math.isfinite(a) and math.isfinite(b)):
            return False
        return abs(a - b) <= 1e-12 + 64 * 2.220446049250313e-16 * max(abs(a), abs(b))

    def delta_at(self, h):
        if self.user_delta is not None:
            kind, c, base = self.user_delta
            return c * base ** h
        # default diameter function: largest squared half-width (first coordinate) among the cells of depth h
        best = -INF
        for n in self.order[h]:
            lo, hi = n.get_domain()[0]
            c = n.get_cpoint()[0]
            best = max(best, (lo - c) ** 2, (hi - c) ** 2)
        return best

    def leaves_at(self, h):
        return [n for n in self.order[h] if self.is_leaf[id(n)]]

    def unevaluated_before(self, node):
        """An unevaluated leaf that precedes `node` in the top-down sweep: one of strictly smaller depth (the
        statement fixes the order of depths, not the order in which the cells of one depth are visited)."""
        h = node.get_depth()
        for d in range(0, h):
            for n in self.order[d]:
                if self.is_leaf[id(n)] and self.evals(n) == 0 and self.handed.get(id(n), 0) == 0:
                    return n
        return None

    # ----------------------------------------------------------------- pull
    def _process_calls(self, ctx, calls, judging, t):
        """Judge and book the expansions made since the last look (inside pull or inside receive_reward: the
        statement does not say when a leaf is expanded)."""
        st = ctx.extra["stats"]
        for c in calls:
            par = c["parent"]
            h = par.get_depth()
            if judging:
                if not c["was_leaf"] or not self.is_leaf.get(id(par), False):
                    raise Violation("C08.leaf", "expanded cell %r is not a leaf (round %d)" % (cell_id(par), t))
                need = self.k if self.kind == "StoSOO" else 1
                if self.evals(par) < need:
                    raise Violation("C08.unevaluated", "expanded leaf %r has %d evaluation(s), %d required (round %d)"
                                    % (cell_id(par), self.evals(par), need, t))
                u = self.unevaluated_before(par)
                if u is not None:
                    raise Violation("C08.sweep", "leaf %r was expanded while the unevaluated leaf %r precedes it in the sweep (round %d)"
                                    % (cell_id(par), cell_id(u), t))
                v = self.value(par)
                if self.kind == "DOO":
                    rivals = [n for lvl in self.order for n in lvl if self.is_leaf[id(n)] and self.evals(n) > 0]
                else:
                    rivals = [n for n in self.leaves_at(h) if self.evals(n) > 0 or self.kind == "StoSOO"]
                best = max(self.value(n) for n in rivals)
                if not (v == best or self.near(v, best)):
                    raise Violation("C08.best", "expanded leaf %r (depth %d) has value %r but a rival leaf has %r (round %d)"
                                    % (cell_id(par), h, v, best, t), round=t)
                if self.kind in ("SOO", "StoSOO"):
                    if self.prev_depth is not None and h > self.prev_depth:
                        if not (v >= self.prev_val or self.near(v, self.prev_val)):
                            raise Violation("C08.monotone", "leaf %r (value %r) expanded after a shallower leaf of value %r in the same sweep (round %d)"
                                            % (cell_id(par), v, self.prev_val, t))
                        st.bump("monotone_comparisons")
                    self.prev_depth, self.prev_val = h, v
                st.bump("expansions_judged")
            # model update
            self.is_leaf[id(par)] = False
            ch = c["children"]
            while len(self.order) <= h + 1:
                self.order.append([])
            for n in ch:
                self.order[h + 1].append(n)
                self.is_leaf[id(n)] = True

    def after_pull(self, ctx):
        self.t += 1
        t = self.t
        st = ctx.extra["stats"]
        calls = [c for c in ctx.round_calls() if c["partition"] is self.P]
        judging = ctx.judging
        self.prev_depth = None
        self.prev_val = None
        self._process_calls(ctx, calls, judging, t)
        self._n_seen = len(calls)
        # the cell handed out
        cell = handed_cell(ctx.algo)
        self.cell = cell
        if judging:
            if list(map(float, ctx.x)) != list(map(float, cell.get_cpoint())):
                raise Violation("C08.point", "pull returned %r, not the representative of the handed-out cell %r" % (ctx.x, cell_id(cell)))
            if not self.is_leaf.get(id(cell), False):
                raise Violation("C08.handout", "handed-out cell %r is not a leaf of the tree (round %d)" % (cell_id(cell), t))
            h = cell.get_depth()
            if self.kind in ("SOO", "StoSOO") and h > self.cap:
                raise Violation("C08.cap", "cell %r at depth %d is evaluated beyond the depth cap %d (round %d)" % (cell_id(cell), h, self.cap, t))
            if self.kind in ("SOO", "DOO"):
                if self.evals(cell) + self.handed.get(id(cell), 0) > 0:
                    raise Violation("C08.once", "cell %r is evaluated a second time (round %d)" % (cell_id(cell), t))
                u = self.unevaluated_before(cell)
                if u is not None:
                    raise Violation("C08.first", "handed-out cell %r is not the first unevaluated leaf in top-down order: %r precedes it (round %d)"
                                    % (cell_id(cell), cell_id(u), t))
            else:
                if self.evals(cell) >= self.k:
                    raise Violation("C08.k", "cell %r is evaluated more than k=%d times (round %d)" % (cell_id(cell), self.k, t))
                v = self.b_sto(cell)
                best = max(self.b_sto(n) for n in self.leaves_at(h))
                if not (v == best or self.near(v, best)):
                    raise Violation("C08.handout", "handed-out cell %r has b=%r but a leaf of its depth has b=%r (round %d)"
                                    % (cell_id(cell), v, best, t))
            st.bump("handouts_judged")
        self.handed[id(cell)] = self.handed.get(id(cell), 0) + 1

    def after_round(self, ctx):
        cell = self.cell
        self.rew.setdefault(id(cell), []).append(ctx.r)
        self.handed[id(cell)] -= 1
        # expansions made inside receive_reward (an eager sweep) are judged and booked like those made in pull
        calls = [c for c in ctx.round_calls() if c["partition"] is self.P]
        new = calls[self._n_seen:]
        if new:
            self.prev_depth = None
            self.prev_val = None
            self._process_calls(ctx, new, ctx.judging, self.t)
        if self.kind == "DOO" and len(calls) > 1 and ctx.judging:
            raise Violation("C08.one", "DOO made %d expansions in one round (round %d)" % (len(calls), self.t))

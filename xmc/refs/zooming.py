"""Reference checker for Zooming (C11), from the property statement and Zooming.png:
coverage of the domain by active arms, max-index play, refinement rule."""
import math

from ..adapters import _attr, close, in_box
from ..core import Violation
from ..observe import cell_id, leaves
from ..world import Oracle


def phase_of(t):
    """Phase during round t (1-based): phase i lasts 2^i rounds."""
    p = 1
    while (2 ** (p + 1) - 2) < t:
        p += 1
    return p


class ZoomingOracle(Oracle):
    name = "C11"

    def begin(self, ctx):
        self.led = {}  # id(arm) -> [arm, rewards]
        self.t = 0
        p = ctx.cfg["params"]
        self.nu = float(p.get("nu", 1))
        self.rho = float(p.get("rho", 0.9))
        self.pending = None
        self.consumed_calls = 0
        self.arms_before = {}
        if ctx.judging:
            self.coverage(ctx, "after construction")

    def stats(self, arm):
        r = self.led.get(id(arm), [arm, []])[1]
        return (sum(r) / len(r) if r else 0.0), len(r)

    def coverage(self, ctx, where):
        algo = ctx.algo
        act = _attr(algo, "active_points")
        cells = {}
        for arm, cell in act.items():
            if not in_box(arm.get_point(), cell.get_domain()):
                raise Violation("C11.inside", "active arm %r lies outside its cell %r %r %s"
                                % (arm.get_point(), cell_id(cell), cell.get_domain(), where))
            cells[id(cell)] = cell
        for leaf in leaves(algo.partition):
            if id(leaf) not in cells:
                raise Violation("C11.coverage", "leaf cell %r %r has no active arm: the region lost its arm %s"
                                % (cell_id(leaf), leaf.get_domain(), where))

    def _rebind(self, act, pt):
        """An arm object may be re-created when it is handed down: same location, same number of pulls = same arm."""
        ids = {id(a) for a in act}
        for aid, (arm, rew) in list(self.led.items()):
            if aid not in ids:
                twin = [a for a in act if id(a) not in self.led and list(map(float, a.get_point())) == list(map(float, arm.get_point()))
                        and pt[a] == len(rew)]
                if twin:
                    del self.led[aid]
                    self.led[id(twin[0])] = [twin[0], rew]

    def _judge_refinement(self, ctx, arm, cell, calls, t, where):
        """`calls`: refinements of the arm's cell, possibly a chain (the cell, then the child that took the arm, ...).
        Every refined cell must be the arm's cell at that moment and be due by the rule at its depth."""
        st = ctx.extra["stats"]
        act = _attr(ctx.algo, "active_points")
        pt = _attr(ctx.algo, "pulled_times")
        m, n = self.stats(arm)
        cur = cell
        for c in calls:
            if c["parent"] is not cur:
                raise Violation("C11.refine", "round %d refined cell %r, the pulled arm's cell is %r %s"
                                % (t, cell_id(c["parent"]), cell_id(cur), where))
            thr = self.nu * self.rho ** cur.get_depth()
            rad = math.sqrt(8 * phase_of(t + 1) / (2 + n))
            if not (rad <= thr or close(rad, thr)):
                raise Violation("C11.rule", "round %d: radius sqrt(8*phase/(2+%d)) = %r vs nu*rho^%d = %r: refinement not due but done %s"
                                % (t, n, rad, cur.get_depth(), thr, where), round=t)
            st.bump("refinements")
            children = c["children"]
            holders = [ch for ch in children if in_box(arm.get_point(), ch.get_domain())]
            if len(holders) > 1:
                st.bump("refinements_arm_on_shared_face")
            # which child took the arm: the arm's final cell or an ancestor of it among these children
            fin = act.get(arm)
            nxt = None
            x = fin
            while x is not None:
                if any(x is ch for ch in children):
                    nxt = x
                    break
                x = x.get_parent()
            if nxt is None:
                raise Violation("C11.handdown", "after refining %r the arm's cell is %r, not below one of the children (round %d)"
                                % (cell_id(cur), cell_id(fin) if fin is not None else None, t))
            for ch in children:
                if ch is nxt:
                    continue
                if in_box(arm.get_point(), ch.get_domain()):
                    continue  # contains the arm (shared face): it only has to be covered, which coverage() checks
                fresh = [a for a, cc in act.items() if cc is ch and id(a) not in self.arms_before]
                ok = [a for a in fresh if list(map(float, a.get_point())) == list(map(float, ch.get_cpoint())) and pt[a] == 0]
                if not ok and ch.get_children() is None:
                    raise Violation("C11.newarm", "after refining %r the child %r %r, which does not contain the arm, did not receive a new arm at its centre (round %d)"
                                    % (cell_id(cur), cell_id(ch), ch.get_domain(), t), round=t)
            cur = nxt

    def after_pull(self, ctx):
        self.t += 1
        t = self.t
        algo = ctx.algo
        arm = _attr(algo, "best_arm")
        act = _attr(algo, "active_points")
        pt = _attr(algo, "pulled_times")
        # a refinement that was due after the previous round may be carried out lazily at the beginning of this pull
        if self.pending is not None:
            parm, pcell, pt_round = self.pending
            self.pending = None
            calls = [c for c in ctx.round_calls() if c["partition"] is algo.partition]
            self.consumed_calls = len(calls)
            if ctx.judging:
                if not calls:
                    raise Violation("C11.rule", "round %d: the refinement of cell %r was due (radius <= nu*rho^depth) but was done neither in "
                                    "receive_reward nor at the next pull" % (pt_round, cell_id(pcell)), round=pt_round)
                self._rebind(act, pt)
                self._judge_refinement_at(ctx, parm, pcell, calls, pt_round)
                self.coverage(ctx, "(after the pull of round %d)" % t)
        else:
            self.consumed_calls = 0
        self._rebind(act, pt)
        self.arm = arm
        self.cell_before = act.get(arm)
        self.arms_before = {id(a): a for a in act}  # keep the objects: ids of dead arms could be reused
        if not ctx.judging:
            return
        if arm not in act:
            raise Violation("C11.active", "the pulled arm is not active (round %d)" % t)
        if list(map(float, ctx.x)) != list(map(float, arm.get_point())):
            raise Violation("C11.point", "pull returned %r, the pulled arm is at %r" % (ctx.x, arm.get_point()))
        ph = phase_of(t)

        def index(a):
            m, n = self.stats(a)
            return m + 2 * math.sqrt(8 * ph / (2 + n)), max((abs(v) for v in self.led.get(id(a), [a, []])[1]), default=0.0)

        mine, sc = index(arm)
        best = max(index(a)[0] for a in act)
        # rounding of a running mean over t rounds, relative to the largest reward involved - not a fixed 1e-9, which
        # would call indices 1e-4 apart "tied" once rewards are of order 1e5
        if not (mine == best or close(mine, best, 32 * (t + 8) * 2.3e-16, sc)):
            raise Violation("C11.index", "pulled arm at %r has index %r, another active arm has %r (phase %d, round %d)"
                            % (arm.get_point(), mine, best, ph, t), round=t)
        ctx.extra["stats"].bump("pulls_judged")

    def _judge_refinement_at(self, ctx, arm, cell, calls, t):
        self._judge_refinement(ctx, arm, cell, calls, t, "(carried out at the next pull)")

    def after_round(self, ctx):
        t = self.t
        arm = self.arm
        rew_list = self.led.setdefault(id(arm), [arm, []])[1]
        rew_list.append(ctx.r)
        if not ctx.judging:
            return
        st = ctx.extra["stats"]
        algo = ctx.algo
        act = _attr(algo, "active_points")
        pt = _attr(algo, "pulled_times")
        av = _attr(algo, "average_rewards")
        self._rebind(act, pt)
        # the arm object may have been re-created while it was handed down: find the entry that owns its history
        arm = next((v[0] for v in self.led.values() if v[1] is rew_list), arm)
        if arm not in act:
            raise Violation("C11.active", "the pulled arm at %r is no longer active after its reward (round %d)" % (arm.get_point(), t))
        m, n = self.stats(arm)
        rew = self.led[id(arm)][1]
        if pt[arm] != n or not close(av[arm], m, 1e-9, max(abs(v) for v in rew)):
            raise Violation("C11.history", "arm at %r records (mean %r, pulls %r), its own history gives (%r, %d) (round %d)"
                            % (arm.get_point(), av[arm], pt[arm], m, n, t))
        cell = self.cell_before
        calls = [c for c in ctx.round_calls() if c["partition"] is algo.partition][self.consumed_calls:]
        thr = self.nu * self.rho ** cell.get_depth()
        # the radius is the state quantity an observer sees after receive_reward: phase counter and pull
        # count as they stand once round t is booked (the same radius the next pull's index uses)
        rad = math.sqrt(8 * phase_of(t + 1) / (2 + n))
        ambiguous = close(rad, thr)
        due = rad <= thr
        if calls:
            self._judge_refinement(ctx, arm, cell, calls, t, "")
        elif due and not ambiguous:
            # not refined inside receive_reward: admissible only if it is carried out at the very next pull
            self.pending = (arm, cell, t)
        if ambiguous:
            st.ambiguous += 1
        self.coverage(ctx, "(round %d)" % t)
        st.bump("rounds_judged")

    def end(self, ctx):
        # a refinement still pending when the run ends cannot be judged (the run stops before the next pull)
        self.pending = None

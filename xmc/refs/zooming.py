"""Reference checker for Zooming (C11), from the property statement and Zooming.png:
coverage of the domain by active arms, max-index play, refinement rule."""
import math

from ..adapters import _attr, close, in_box
from ..core import Violation
from ..observe import cell_id, leaves
from ..world import Oracle


def phase_of(t):
    """Phase during round t (1-based): phase i lasts 2^i rounds."""
    p = 1
    while (2 ** (p + 1) - 2) < t:
        p += 1
    return p


class ZoomingOracle(Oracle):
    name = "C11"

    def begin(self, ctx):
        self.led = {}  # id(arm) -> [arm, rewards]
        self.t = 0
        p = ctx.cfg["params"]
        self.nu = float(p.get("nu", 1))
        self.rho = float(p.get("rho", 0.9))
        if ctx.judging:
            self.coverage(ctx, "after construction")

    def stats(self, arm):
        r = self.led.get(id(arm), [arm, []])[1]
        return (sum(r) / len(r) if r else 0.0), len(r)

    def coverage(self, ctx, where):
        algo = ctx.algo
        act = _attr(algo, "active_points")
        cells = {}
        for arm, cell in act.items():
            if not in_box(arm.get_point(), cell.get_domain()):
                raise Violation("C11.inside", "active arm %r lies outside its cell %r %r %s"
                                % (arm.get_point(), cell_id(cell), cell.get_domain(), where))
            cells[id(cell)] = cell
        for leaf in leaves(algo.partition):
            if id(leaf) not in cells:
                raise Violation("C11.coverage", "leaf cell %r %r has no active arm: the region lost its arm %s"
                                % (cell_id(leaf), leaf.get_domain(), where))

    def after_pull(self, ctx):
        self.t += 1
        t = self.t
        algo = ctx.algo
        arm = _attr(algo, "best_arm")
        self.arm = arm
        act = _attr(algo, "active_points")
        self.cell_before = act.get(arm)
        self.arms_before = {id(a) for a in act}
        if not ctx.judging:
            return
        if arm not in act:
            raise Violation("C11.active", "the pulled arm is not active (round %d)" % t)
        if list(map(float, ctx.x)) != list(map(float, arm.get_point())):
            raise Violation("C11.point", "pull returned %r, the pulled arm is at %r" % (ctx.x, arm.get_point()))
        ph = phase_of(t)

        def index(a):
            m, n = self.stats(a)
            return m + 2 * math.sqrt(8 * ph / (2 + n))

        mine = index(arm)
        best = max(index(a) for a in act)
        if not (mine == best or close(mine, best)):
            raise Violation("C11.index", "pulled arm at %r has index %r, another active arm has %r (phase %d, round %d)"
                            % (arm.get_point(), mine, best, ph, t), round=t)
        ctx.extra["stats"].bump("pulls_judged")

    def after_round(self, ctx):
        t = self.t
        arm = self.arm
        self.led.setdefault(id(arm), [arm, []])[1].append(ctx.r)
        if not ctx.judging:
            return
        st = ctx.extra["stats"]
        algo = ctx.algo
        act = _attr(algo, "active_points")
        pt = _attr(algo, "pulled_times")
        av = _attr(algo, "average_rewards")
        m, n = self.stats(arm)
        if pt[arm] != n or not close(av[arm], m):
            raise Violation("C11.history", "arm at %r records (mean %r, pulls %r), its own history gives (%r, %d) (round %d)"
                            % (arm.get_point(), av[arm], pt[arm], m, n, t))
        cell = self.cell_before
        calls = [c for c in ctx.round_calls() if c["partition"] is algo.partition]
        thr = self.nu * self.rho ** cell.get_depth()
        verdicts = set()
        # the radius is the state quantity an observer sees after receive_reward: phase counter and pull
        # count as they stand once round t is booked (the same radius the next pull's index uses)
        for ph in {phase_of(t + 1)}:
            rad = math.sqrt(8 * ph / (2 + n))
            if close(rad, thr):
                verdicts |= {True, False}
            else:
                verdicts.add(rad <= thr)
        if len(calls) > 1:
            raise Violation("C11.refine", "%d cells refined in one round (round %d)" % (len(calls), t))
        refined = len(calls) == 1
        if refined and calls[0]["parent"] is not cell:
            raise Violation("C11.refine", "round %d refined cell %r, the pulled arm's cell is %r" % (t, cell_id(calls[0]["parent"]), cell_id(cell)))
        if len(verdicts) > 1:
            st.ambiguous += 1
        else:
            want = next(iter(verdicts))
            if want != refined:
                raise Violation("C11.rule", "round %d: radius sqrt(8*phase/(2+%d)) vs nu*rho^%d = %r: refinement %s but %s"
                                % (t, n, cell.get_depth(), thr, "due" if want else "not due", "done" if refined else "not done"), round=t)
        if refined:
            st.bump("refinements")
            children = calls[0]["children"]
            new_cell = act.get(arm)
            if not any(new_cell is c for c in children):
                raise Violation("C11.handdown", "after refining %r the arm's cell is %r, not one of the children (round %d)"
                                % (cell_id(cell), cell_id(new_cell) if new_cell is not None else None, t))
            on_face = sum(1 for c in children if in_box(arm.get_point(), c.get_domain())) > 1
            if on_face:
                st.bump("refinements_arm_on_shared_face")
            for c in children:
                if c is new_cell:
                    continue
                fresh = [a for a, cc in act.items() if cc is c and id(a) not in self.arms_before]
                ok = [a for a in fresh if list(map(float, a.get_point())) == list(map(float, c.get_cpoint())) and pt[a] == 0]
                if not ok:
                    raise Violation("C11.newarm", "after refining %r the child %r %r did not receive a new arm at its centre (round %d)"
                                    % (cell_id(cell), cell_id(c), c.get_domain(), t), round=t)
        self.coverage(ctx, "(round %d)" % t)
        st.bump("rounds_judged")

"""Reference checker for SequOOL (C12), from the property statement and SequOOL.png."""
import math

from ..adapters import _attr, close, handed_cell
from ..core import Violation
from ..observe import cell_id
from ..world import Oracle, call_lib


def h_max_of(n):
    H = sum(1.0 / i for i in range(1, n + 1))
    return int(math.floor(n / H))


class SequOOLOracle(Oracle):
    name = "C12"

    def begin(self, ctx):
        n = ctx.cfg["params"].get("n", 1000)
        self.hmax = h_max_of(n)
        self.P = ctx.algo.partition
        self.root = self.P.get_root()
        self.opened_at = {}  # depth -> count
        self.cur_depth = -1
        self.queue = []  # children of the last opened cell still to hand out
        self.rew = {}  # id(cell) -> reward
        self.cells_at = {0: [self.root]}
        self.is_open = {}
        self.exhausted = False
        self.rec_at_exhaustion = None
        self.t = 0
        # openings made at construction (the root may be opened eagerly) are booked like those made in pull
        self._open(ctx, [c for c in ctx.rec.calls if c["partition"] is self.P], ctx.judging, 0)

    def _open(self, ctx, calls, j, t):
        """Book (and judge) openings in the order they were made.  Several cells of one depth may be opened in one go
        (as the pseudo-code does): each must be the best unopened cell of the depth at that moment, and the children
        are then evaluated once each, in order."""
        st = ctx.extra["stats"]
        for c in calls:
            par = c["parent"]
            h = par.get_depth()
            if j:
                if self.exhausted:
                    raise Violation("C12.after", "a cell was opened after the schedule was exhausted (round %d)" % t)
                if self.queue and any(q.get_depth() != h + 1 for q in self.queue):
                    raise Violation("C12.children", "cell %r was opened before all children of the previous depth's openings were evaluated (round %d)"
                                    % (cell_id(par), t))
                if not c["was_leaf"] or self.is_open.get(id(par)):
                    raise Violation("C12.reopen", "cell %r was opened twice (round %d)" % (cell_id(par), t))
                if h < self.cur_depth:
                    raise Violation("C12.order", "opened a cell of depth %d after cells of depth %d (round %d)" % (h, self.cur_depth, t))
                if h > self.hmax:
                    raise Violation("C12.hmax", "opened a cell at depth %d beyond h_max = %d (round %d)" % (h, self.hmax, t))
                if h == 0:
                    if par is not self.root or self.opened_at.get(0, 0) >= 1:
                        raise Violation("C12.root", "depth-0 opening is not the first opening of the root (round %d)" % t)
                else:
                    if self.opened_at.get(0, 0) != 1:
                        raise Violation("C12.root", "a cell was opened before the root (round %d)" % t)
                    quota = self.hmax // h
                    if self.opened_at.get(h, 0) + 1 > quota:
                        raise Violation("C12.quota", "opening #%d at depth %d exceeds floor(h_max/h) = %d (round %d)"
                                        % (self.opened_at.get(h, 0) + 1, h, quota, t))
                    if id(par) not in self.rew:
                        raise Violation("C12.unevaluated", "opened cell %r was never evaluated (round %d)" % (cell_id(par), t))
                    rivals = [n for n in self.cells_at.get(h, []) if not self.is_open.get(id(n)) and id(n) in self.rew]
                    best = max(self.rew[id(n)] for n in rivals)
                    if self.rew[id(par)] != best:
                        raise Violation("C12.best", "opened cell %r has reward %r, an unopened cell of depth %d has %r (round %d)"
                                        % (cell_id(par), self.rew[id(par)], h, best, t), round=t)
                st.bump("openings_judged")
            self.is_open[id(par)] = True
            self.opened_at[h] = self.opened_at.get(h, 0) + 1
            self.cur_depth = max(self.cur_depth, h)
            self.queue.extend(c["children"])
            self.cells_at.setdefault(h + 1, []).extend(c["children"])

    def after_pull(self, ctx):
        self.t += 1
        t = self.t
        j = ctx.judging
        st = ctx.extra["stats"]
        calls = [c for c in ctx.round_calls() if c["partition"] is self.P]
        self._open(ctx, calls, j, t)
        cell = handed_cell(ctx.algo)
        self.cell = cell
        if self.queue:
            want = self.queue.pop(0)
            if j:
                if cell is not want:
                    raise Violation("C12.handout", "pull handed out %r, the next child of the opened cell is %r (round %d)"
                                    % (cell_id(cell), cell_id(want), t))
                if list(map(float, ctx.x)) != list(map(float, want.get_cpoint())):
                    raise Violation("C12.handout", "pull returned %r, not the representative of %r" % (ctx.x, cell_id(want)))
                if id(cell) in self.rew:
                    raise Violation("C12.twice", "cell %r is evaluated twice (round %d)" % (cell_id(cell), t))
            self.search = True
        else:
            # no child pending and nothing opened: the schedule is exhausted
            self.search = False
            if j:
                centre = [(lo + hi) / 2 for lo, hi in ctx.cfg["domain"]]
                if list(map(float, ctx.x)) != centre:
                    raise Violation("C12.exhausted", "no cell is pending but pull returned %r instead of the domain centre %r (round %d)"
                                    % (ctx.x, centre, t))
                st.bump("exhausted_rounds")
            if not self.exhausted:
                self.exhausted = True
                self.rec_at_exhaustion = list(map(float, call_lib("get_last_point", ctx.algo.get_last_point)))

    def after_round(self, ctx):
        if self.search:
            self.rew[id(self.cell)] = ctx.r
        elif ctx.judging:
            now = list(map(float, call_lib("get_last_point", ctx.algo.get_last_point)))
            if now != self.rec_at_exhaustion:
                raise Violation("C12.recommendation", "a pull after the schedule was exhausted changed the recommendation %r -> %r (round %d)"
                                % (self.rec_at_exhaustion, now, self.t))

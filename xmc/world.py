"""Executions of the real algorithm objects under a ChoiceSource, with oracles.

An execution = (cfg, script): fresh algorithm object from the tree under check, driven
round by round; every environment question (reward, RNG) answered from the script.
"""
import copy
import math
import time
import traceback

import numpy as np

from . import configs
from .core import ChoiceSource, HarnessError, Violation, enumerate_scripts
from .observe import algo_digest
from .seams import ExpansionRecorder, RngSeam, StepBudget

_SEAM = None


def seam():
    """One RNG seam per process, installed for the life of the worker."""
    global _SEAM
    if _SEAM is None:
        _SEAM = RngSeam(ChoiceSource())
        _SEAM.__enter__()
    return _SEAM


class AlgoCrash(Exception):
    """The algorithm under check raised: C01's business; other checks count it."""

    def __init__(self, where, exc, tb, t=None):
        super().__init__("%s: %s: %s" % (where, type(exc).__name__, exc))
        self.where = where
        self.exc = exc
        self.tb = tb
        self.t = t


def partitions_of(algo):
    """Every partition object currently owned by `algo` (own tree, learners' trees).
    Learners are looked up where the wrappers keep them (curr_algo, V_algo, algorithm)."""
    from PyXAB.partition.Partition import Partition

    out = []
    seen = set()

    def visit(a, depth=0):
        if id(a) in seen or depth > 3:
            return
        seen.add(id(a))
        d = a.__dict__
        p = d.get("partition")
        if isinstance(p, Partition):
            out.append(p)
        for k in ("curr_algo", "algorithm"):
            v = d.get(k)
            if v is not None and hasattr(v, "pull") and not isinstance(v, type):
                visit(v, depth + 1)
        va = d.get("V_algo")
        if va:
            for x in va:
                if hasattr(x, "pull"):
                    visit(x, depth + 1)

    visit(algo)
    if not out and type(algo).__name__ not in ("POO", "GPO", "PCT", "VPCT"):
        raise HarnessError("cannot observe: %s owns no Partition under the attribute 'partition'" % type(algo).__name__)
    return out


class Ctx:
    """Everything an oracle may look at during one execution."""

    def __init__(self, cfg, src, changed_pos):
        self.cfg = cfg
        self.src = src
        self.changed_pos = changed_pos
        self.algo = None
        self.domain = None
        self.rec = ExpansionRecorder()
        self.t = 0
        self.x = None
        self.r = None
        self.label = None
        self.points = []
        self.rewards = []
        self.calls_mark = 0  # index into rec.calls at the beginning of the current round
        self.is_wrapper = cfg.get("algo") in ("POO", "GPO", "PCT", "VPCT")
        self.extra = {"stats": Stats()}

    @property
    def judging(self):
        return self.src.pos > self.changed_pos

    def round_calls(self):
        return self.rec.calls[self.calls_mark:]

    def attach_all(self, force=False):
        # the set of partitions only changes for the wrappers (learners are created in pull)
        if not force and not self.is_wrapper:
            return
        for p in partitions_of(self.algo):
            self.rec.attach(p)


def reward_from_alphabet(R):
    def f(ctx):
        return R[ctx.src.choose("reward", len(R))]

    f.alphabet = list(R)
    f.base = None
    return f


def reward_dev(base, R, name=None):
    """E-dev reward: menu entry 0 is the base reward g(ctx), entries 1.. are R."""

    def f(ctx):
        a = ctx.src.choose("reward", 1 + len(R))
        if a == 0:
            return float(base(ctx))
        return R[a - 1]

    f.alphabet = list(R)
    f.base = name or getattr(base, "__name__", "base")
    return f


# base reward scripts for E-dev -----------------------------------------------------
def _x0(ctx):
    lo, hi = ctx.cfg["domain"][0]
    try:
        u = (float(ctx.x[0]) - lo) / (hi - lo)
    except Exception:
        return 0.5
    return u if u == u else 0.5


def base_zero(ctx):
    return 0.0


def base_neg(ctx):
    return -1.0


def base_alt(ctx):
    return -1.0 if ctx.t % 2 else 1.0


def base_peak(ctx):
    return -abs(_x0(ctx) - 0.3)


def base_negpeak(ctx):
    return -abs(_x0(ctx) - 0.3) - 0.1


def base_twopeak(ctx):
    u = _x0(ctx)
    return max(1 - 8 * abs(u - 0.2), 0.8 - 3 * abs(u - 0.75), -1.0)


def base_bigpeak(ctx):
    return 50.0 * (1 - 2 * abs(_x0(ctx) - 0.3))


def base_drift(ctx):
    # rewards that get steadily worse: later (deeper) evaluations look worse than early shallow ones
    return -0.01 * ctx.t


def base_off8(ctx):
    # ordinary rewards carried on a large common offset (a shifted objective)
    return 1e8 + base_twopeak(ctx)


def base_off12(ctx):
    # distinct rewards whose spread (1..100) is tiny relative to their size
    return 1e12 + 100.0 * base_twopeak(ctx)


def base_rise(ctx):
    # increasing in the (first) coordinate: drives a search onto the upper face of the box, down to float resolution
    return 2.0 * _x0(ctx) - 1.0


def base_fall(ctx):
    return 1.0 - 2.0 * _x0(ctx)


def base_noisy(ctx):
    # a point-dependent reward plus a deterministic pseudo-noise of amplitude 0.5 (empirical variances keep changing)
    return base_twopeak(ctx) + 0.5 * math.sin(12.9898 * ctx.t * ctx.t + 1.0)


def base_noff5(ctx):
    # a cost of the order of -1e5 whose spread is of order one (relative tie tests call everything equal)
    return -1e5 + base_twopeak(ctx)


def base_noff6(ctx):
    return -1e6 + 3.0 * base_peak(ctx)


BASES = {"rise": base_rise, "fall": base_fall, "noisy": base_noisy, "noff5": base_noff5, "noff6": base_noff6, "off8": base_off8, "off12": base_off12, "drift": base_drift, "bigpeak": base_bigpeak, "zero": base_zero, "neg": base_neg, "alt": base_alt, "peak": base_peak, "negpeak": base_negpeak,
         "twopeak": base_twopeak}


_GUARD = None


def hang_guard():
    """Every execution runs under the deterministic branch budget (sys.monitoring), so that code that loops forever
    ends the execution (counted as a crash, C01's business) instead of freezing the check."""
    global _GUARD
    if _GUARD is None:
        import os as _os

        if _os.environ.get("XMC_NO_GUARD"):
            _GUARD = False
        else:
            _GUARD = StepBudget(configs.PKG_DIR, limit=int(_os.environ.get("XMC_STEP_LIMIT", "5000000")))
            _GUARD.install()
    return _GUARD


def execute(cfg, script, expect, changed_pos, T, reward_fn, oracles, learner_classes=None, labels=None,
            construct_hook=None):
    """Run one execution; returns (points_of_choice_source, ctx).  Raises Violation /
    AlgoCrash / HarnessError."""
    sm = seam()
    guard = hang_guard()
    src = ChoiceSource(script, expect)
    sm.set_source(src)
    sm.choice_log.clear()
    ctx = Ctx(cfg, src, changed_pos)
    ctx.seam = sm
    ctx.reward_fn = reward_fn
    ctx.learner_classes = learner_classes
    ctx.labels = labels
    sig0 = sm.state_sig()
    ctx.rec.activate()
    if learner_classes:
        from . import ledger

        ctx.learner_log = ledger.reset_log()
    try:
        ctx.algo, ctx.domain = configs.build(cfg, learner_classes)
    except (Violation, HarnessError):
        raise
    except StepBudget.Hang:
        raise AlgoCrash("constructor", RuntimeError("did not return within the branch budget (hang)"), "")
    except Exception as e:  # noqa
        raise AlgoCrash("constructor", e, traceback.format_exc())
    by = Bystander(cfg["bystander"], sm, src, ctx.rec, guard) if cfg.get("bystander") else None
    if construct_hook:
        construct_hook(ctx)
    ctx.attach_all(force=True)
    for o in oracles:
        o.begin(ctx)
    for t in range(1, T + 1):
        ctx.t = t
        ctx.rec.round = t
        ctx.calls_mark = len(ctx.rec.calls)
        lab = t if labels is None else labels(t)
        ctx.label = lab
        if by:
            by.pull(t)
        if guard:
            guard.reset()
        try:
            x = ctx.algo.pull(lab)
        except (Violation, HarnessError):
            raise
        except StepBudget.Hang:
            raise AlgoCrash("pull", RuntimeError("did not return within the branch budget (hang)"), "", t)
        except Exception as e:  # noqa
            ctx.src_points = src.points
            raise AlgoCrash("pull", e, traceback.format_exc(), t)
        if x is None and not any(getattr(o, "wants_none", False) for o in oracles):
            # the algorithm has nothing left to propose (e.g. StoSOO with a saturated depth cap): the run ends
            # here for every check except C01, which judges the None itself
            ctx.t = t - 1
            ctx.extra["stats"].bump("runs_ended_by_none")
            break
        ctx.x = x
        ctx.points.append(x)
        ctx.attach_all()
        for o in oracles:
            o.after_pull(ctx)
        r = reward_fn(ctx)
        ctx.r = r
        ctx.rewards.append(r)
        if by:
            by.receive(t)
        if guard:
            guard.reset()
        try:
            ctx.algo.receive_reward(lab, r)
        except (Violation, HarnessError):
            raise
        except StepBudget.Hang:
            raise AlgoCrash("receive_reward", RuntimeError("did not return within the branch budget (hang)"), "", t)
        except Exception as e:  # noqa
            ctx.src_points = src.points
            raise AlgoCrash("receive_reward", e, traceback.format_exc(), t)
        for o in oracles:
            o.after_round(ctx)
    for o in oracles:
        o.end(ctx)
    if sm.state_sig() != sig0 or sm.unenumerated:
        # a random draw that did not go through the seam (another np.random entry point, a name bound at import
        # time, a private Generator seeded from the global one): the harness does not own this execution
        sm.unenumerated = 0
        raise HarnessError("cannot own the randomness of %s: NumPy's global generator advanced during an execution "
                           "(a draw bypassed the RNG seam)" % cfg.get("algo"))
    return src.points, ctx


class Bystander:
    """A second, independently constructed instance (other parameters, other box) that lives next to the object under
    check: built right AFTER it and driven in lock-step (B.pull, A.pull, B.receive_reward, A.receive_reward).  The
    oracles never look at it; its expansions are not recorded and its random draws are answered from a private
    default source, so the execution of the object under check is the one its script describes.  Property-respecting
    code cannot notice a bystander (C14: instances never influence each other); state shared between instances
    (class attributes, module globals, memo tables keyed too coarsely) shows up in the main object's own oracle."""

    def __init__(self, cfg, sm, src, rec, guard):
        self.sm, self.src, self.rec, self.guard = sm, src, rec, guard
        self.alive = True
        self.algo = None
        self.pulled = False
        self._run(lambda: setattr(self, "algo", configs.build(cfg)[0]))

    def _run(self, fn):
        if not self.alive:
            return
        ExpansionRecorder.ACTIVE = None
        self.sm.set_source(ChoiceSource([]))
        n0 = len(self.sm.choice_log)
        if self.guard:
            self.guard.reset()
        try:
            fn()
        except (HarnessError, KeyboardInterrupt):
            raise
        except BaseException:  # a bystander that crashes or hangs just stops living; it is not under check
            self.alive = False
        finally:
            del self.sm.choice_log[n0:]
            self.sm.set_source(self.src)
            ExpansionRecorder.ACTIVE = self.rec
            if self.guard:
                self.guard.reset()

    def pull(self, t):
        def f():
            self.pulled = self.algo.pull(t) is not None
            if not self.pulled:
                self.alive = False
        self._run(f)

    def receive(self, t):
        if self.pulled:
            self._run(lambda: self.algo.receive_reward(t, 0.35 * ((t * 7) % 5) - 0.6))


def call_lib(what, fn):
    """Run a library call made by an ORACLE (get_last_point, a learner's pull, ...): an exception or a hang of
    the library there is a crash of the code under check, not a harness error."""
    try:
        return fn()
    except (Violation, HarnessError, AlgoCrash):
        raise
    except StepBudget.Hang:
        raise AlgoCrash(what, RuntimeError("did not return within the branch budget (hang)"), "")
    except Exception as e:  # noqa
        raise AlgoCrash(what, e, traceback.format_exc())
    finally:
        g = _GUARD
        if g:
            g.reset()


def soft_violation(ctx, v, T=None):
    """Record a violation without aborting the execution (one record per distinct key)."""
    st = ctx.extra["stats"]
    key = (v.oracle, ctx.cfg.get("algo"), ctx.cfg.get("part"), ctx.cfg.get("K"), tuple(sorted(map(str, v.details.items()))))
    e = st.soft.get(key)
    if e is not None:
        e[1] += 1
        return
    st.soft[key] = [{"config": ctx.cfg, "script": [p[2] for p in ctx.src.points], "oracle": v.oracle, "message": v.message,
                     "details": _jsonable(v.details), "T": T if T is not None else ctx.t, "soft": True}, 1]


class Oracle:
    name = "oracle"

    def begin(self, ctx):
        pass

    def after_pull(self, ctx):
        pass

    def after_round(self, ctx):
        pass

    def end(self, ctx):
        pass


class InterposedQuery(Oracle):
    """Environment move: get_last_point() may be called between pull and receive_reward (a choice point of
    kind 'query'; put it AFTER the oracles that read the hand-out registers in after_pull)."""

    name = "query"

    def after_pull(self, ctx):
        if ctx.src.choose("query", 2):
            try:
                ctx.algo.get_last_point()
                ctx.extra["stats"].bump("interposed_queries")
            except (Violation, HarnessError):
                raise
            except Exception:  # noqa: cannot recommend yet (finding D10 of C01)
                pass


class QueryAfterRound(Oracle):
    """Environment move: get_last_point() may be called after a round (choice point of kind 'query'); put it BEFORE
    the oracles that inspect the state in after_round."""

    name = "query"

    def after_round(self, ctx):
        if ctx.src.choose("query", 2):
            try:
                ctx.algo.get_last_point()
                ctx.extra["stats"].bump("queries_after_round")
            except (Violation, HarnessError):
                raise
            except Exception:  # noqa: cannot recommend yet (finding D10 of C01)
                pass


class Stats:
    """Counters of one task; merged by the parent."""

    def __init__(self):
        self.executions = 0
        self.judged_rounds = 0
        self.states = set()
        self.transitions = set()
        self.outcomes = set()
        self.nontrivial = set()
        self.choice_kinds = {}
        self.counters = {}
        self.max_depth = 0
        self.crashes = []
        self.violations = []
        self.samples = []
        self.exhaustive = True
        self.caps = []
        self.known = []
        self.ambiguous = 0
        self.soft = {}  # key -> [violation record, count]: violations that do not abort the execution

    def bump(self, key, n=1):
        self.counters[key] = self.counters.get(key, 0) + n

    def merge(self, o):
        self.executions += o.executions
        self.judged_rounds += o.judged_rounds
        self.states |= o.states
        self.transitions |= o.transitions
        self.outcomes |= o.outcomes
        self.nontrivial |= o.nontrivial
        for k, v in o.choice_kinds.items():
            self.choice_kinds[k] = self.choice_kinds.get(k, 0) + v
        for k, v in o.counters.items():
            self.counters[k] = self.counters.get(k, 0) + v
        self.max_depth = max(self.max_depth, o.max_depth)
        self.crashes += o.crashes[: max(0, 20 - len(self.crashes))]
        self.violations += o.violations
        if len(self.samples) < 6:
            self.samples += o.samples[: 6 - len(self.samples)]
        self.exhaustive = self.exhaustive and o.exhaustive
        self.caps += o.caps
        self.known += o.known
        self.ambiguous += o.ambiguous
        for k, (v, n) in o.soft.items():
            if k in self.soft:
                self.soft[k][1] += n
            else:
                self.soft[k] = [v, n]


class StopEnumeration(Exception):
    pass


_KNOWN_CACHE = {}


class DigestOracle(Oracle):
    """States / transitions accounting: canonical digest of the observable state after
    construction and after every round.  Lives for a whole enumeration: digests of the
    rounds that lie entirely before the changed position are inherited from the previous
    execution (lexicographic order guarantees they are the same rounds)."""

    name = "digest"

    def __init__(self, stats, cfg_hash):
        self.stats = stats
        self.cfg_hash = cfg_hash
        self.trail = []  # (pos_end, digest)
        self.idx = 0

    def begin(self, ctx):
        cp = ctx.changed_pos
        keep = 0
        while keep < len(self.trail) and self.trail[keep][0] <= cp:
            keep += 1
        del self.trail[keep:]
        self.idx = 0
        self._record(ctx)

    def _record(self, ctx):
        pos = ctx.src.pos
        if self.idx < len(self.trail):
            if self.trail[self.idx][0] != pos:
                raise HarnessError("divergent replay: round boundary moved (%d vs %d)" % (self.trail[self.idx][0], pos))
            self.idx += 1
            return
        d = hash((self.cfg_hash, algo_digest(ctx.algo)))
        st = self.stats
        st.states.add(d)
        if self.trail:
            ppos, pd = self.trail[-1]
            ans = tuple(p[2] for p in ctx.src.points[ppos:pos])
            st.transitions.add(hash((pd, ans, d)))
        st.judged_rounds += 1
        self.trail.append((pos, d))
        self.idx += 1

    def after_round(self, ctx):
        self._record(ctx)


def run_enumeration(cfg, T, reward_fn, make_oracles, stats, prefix=(), budget_kinds=None, k=None,
                    max_exec=None, deadline=None, learner_classes=None, labels=None, on_crash=None,
                    sample_every=0, nontrivial=None, construct_hook=None, digest=True):
    """Enumerate scripts for one config; evaluate oracles; collect stats.
    make_oracles() -> list of fresh Oracle objects per execution (cheap objects).
    on_crash(crash, ctx_points) -> None | raise Violation.
    nontrivial(ctx) -> hashable key or None: executions counted as distinct non-trivial."""
    from .core import script_hash

    cfg_hash = hash(script_hash(cfg))
    state = {"n": 0}
    dg = DigestOracle(stats, cfg_hash) if digest else None

    def run(script, expect, changed):
        oracles = make_oracles()
        if dg is not None:
            oracles = oracles + [dg]
        pts = None
        if len(stats.violations) >= 3:
            # stop a configuration whose every execution fails - but listed known findings do not count: behind
            # them the enumeration goes on, so that a DIFFERENT failure of the same configuration is still found
            from . import runner as _runner

            kn = _KNOWN_CACHE.setdefault("k", _runner.load_known())
            prop = _KNOWN_CACHE.get("prop")
            # (a known finding that strikes in the constructor or in the very first pull leaves nothing behind it)
            hard = [v for v in stats.violations if not (prop and _runner.match_known(prop, v, kn))
                    or (isinstance(v.get("details"), dict) and v["details"].get("round") in (0, 1))]
            if len(hard) >= 3:
                raise StopEnumeration()
            if len(stats.violations) > 40:
                # keep one representative per known finding and a count (memory)
                del stats.violations[20:-10]
        try:
            def hook(ctx):
                ctx.extra["cfg_hash"] = cfg_hash
                ctx.extra["stats"] = stats
                if construct_hook:
                    construct_hook(ctx)

            pts, ctx = execute(cfg, script, expect, changed, T, reward_fn, oracles, learner_classes, labels, hook)
            stats.outcomes.add(hash((cfg_hash, tuple(tuple(map(float, x)) if x is not None else None for x in ctx.points))))
            if nontrivial is not None:
                key = nontrivial(ctx)
                if key is not None:
                    stats.nontrivial.add(hash((cfg_hash, key)))
            for p in pts:
                stats.choice_kinds[p[0]] = stats.choice_kinds.get(p[0], 0) + 1
            for P in partitions_of(ctx.algo):
                if P.get_depth() > stats.max_depth:
                    stats.max_depth = P.get_depth()
            if len(stats.samples) < 3 and (state["n"] % 97 == 0):
                stats.samples.append({"config": cfg, "script": [p[2] for p in pts],
                                      "points": [list(map(float, x)) for x in ctx.points[:6]],
                                      "rewards": ctx.rewards[:6]})
        except Violation as v:
            sm = seam()
            pts = list(sm.src.points)
            stats.violations.append({"config": cfg, "script": [p[2] for p in pts], "oracle": v.oracle,
                                     "message": v.message, "details": _jsonable(v.details), "T": T})
        except AlgoCrash as c:
            sm = seam()
            pts = list(sm.src.points)
            if on_crash is not None:
                try:
                    on_crash(c, cfg, pts, stats)
                except Violation as v:
                    stats.violations.append({"config": cfg, "script": [p[2] for p in pts], "oracle": v.oracle,
                                             "message": v.message, "details": _jsonable(v.details), "T": T})
            else:
                if len(stats.crashes) < 20:
                    stats.crashes.append({"config": cfg, "script": [p[2] for p in pts], "where": c.where,
                                          "error": "%s: %s" % (type(c.exc).__name__, c.exc)})
                stats.bump("crashed_executions")
        state["n"] += 1
        stats.executions += 1
        return pts

    stopped = False
    try:
        n, exhausted = enumerate_scripts(run, prefix=prefix, max_exec=max_exec, budget_kinds=budget_kinds, k=k,
                                         deadline=deadline)
    except StopEnumeration:
        n, exhausted = state["n"], False
        stopped = True
    if not exhausted:
        stats.exhaustive = False
        stats.caps.append({"config": cfg, "executions_done": n,
                           "cap": "stopped after 3 violations in this task (every execution fails the same way)" if stopped else "max_exec/deadline"})
    return n


def _jsonable(o):
    if isinstance(o, dict):
        return {str(k): _jsonable(v) for k, v in o.items()}
    if isinstance(o, (list, tuple, set)):
        return [_jsonable(v) for v in o]
    if isinstance(o, (np.floating, float)):
        f = float(o)
        return f if math.isfinite(f) else repr(f)
    if isinstance(o, (np.integer,)):
        return int(o)
    if isinstance(o, (int, str, bool)) or o is None:
        return o
    return repr(o)

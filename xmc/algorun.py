"""Generic task runner for explorations of algorithm objects (used by most properties).

task = {"label", "cfg", "mode": "full"|"dev", "T", "R": [...], "base": name (dev mode),
        "k": deviation bound (dev mode), "rng_k": None (RNG answers fully enumerated) or int
        (RNG answers deviate from the default in at most rng_k places), "prefix": [...],
        "max_exec": cap or None}
"""
import time

from . import world
from .core import ChoiceSource, enumerate_scripts
from .world import BASES, Stats, reward_dev, reward_from_alphabet, run_enumeration

RNG_KINDS = {"randint", "uniform", "choice", "normal"}


def reward_fn_of(task):
    if task["mode"] == "full":
        f = reward_from_alphabet(tuple(task["R"]))
        fa = task.get("free_after")
        if fa is None:
            return f
        base = BASES[task.get("free_base", "twopeak")]

        def g(ctx):
            # rounds after `free_after` are a deterministic continuation (no choice point)
            return f(ctx) if ctx.t <= fa else float(base(ctx))

        g.alphabet = f.alphabet
        g.base = None
        return g
    return reward_dev(BASES[task["base"]], tuple(task["R"]), task["base"])


def budget_of(task):
    if task["mode"] == "dev":
        return "*", task["k"]
    if task.get("query_k") is not None:
        return RNG_KINDS | {"query"}, task["query_k"]
    if task.get("rng_k") is not None:
        return RNG_KINDS, task["rng_k"]
    return None, None


def run_algo_task(task, make_oracles, nontrivial=None, learner_classes=None, on_crash=None, labels=None,
                  construct_hook=None, stats=None, digest=True):
    st = stats or Stats()
    world._KNOWN_CACHE["prop"] = task.get("_prop")
    bk, k = budget_of(task)
    dl = None
    if task.get("time_cap"):
        dl = time.time() + task["time_cap"]
    if task.get("deadline_abs"):
        dl = min(dl, task["deadline_abs"]) if dl else task["deadline_abs"]
    run_enumeration(task["cfg"], task["T"], reward_fn_of(task), make_oracles, st, prefix=task.get("prefix", ()),
                    budget_kinds=bk, k=k, max_exec=task.get("max_exec"), deadline=dl,
                    learner_classes=learner_classes() if callable(learner_classes) else learner_classes,
                    labels=labels, on_crash=on_crash, nontrivial=nontrivial, construct_hook=construct_hook,
                    digest=digest)
    for v in st.violations:
        if "task" not in v:
            v["task"] = task
    for v, n in st.soft.values():
        if "task" not in v:
            # a soft violation is replayed with the horizon at which it was seen
            v["task"] = dict(task, T=v["T"])
    return st


def replay_algo(task, script, make_oracles, learner_classes=None, labels=None, on_crash=None, construct_hook=None):
    """Re-execute one script with the oracles; returns list of violation dicts."""
    st = Stats()
    t = dict(task)
    rf = reward_fn_of(t)

    def hook(ctx):
        ctx.extra["stats"] = st
        if construct_hook:
            construct_hook(ctx)

    out = []
    try:
        world.execute(t["cfg"], script, None, -1, t["T"], rf, make_oracles(),
                      learner_classes() if callable(learner_classes) else learner_classes, labels, hook)
    except world.Violation as v:
        out.append({"oracle": v.oracle, "message": v.message, "details": world._jsonable(v.details)})
    except world.AlgoCrash as c:
        if on_crash is not None:
            try:
                on_crash(c, t["cfg"], list(world.seam().src.points), st)
            except world.Violation as v:
                out.append({"oracle": v.oracle, "message": v.message, "details": world._jsonable(v.details)})
        else:
            out.append("crash: %s" % c)
    softs = [{"oracle": v["oracle"], "message": v["message"], "details": v["details"]} for v, n in st.soft.values()]
    return softs + out


def split_prefixes(task, depth, make_oracles=None, learner_classes=None, labels=None):
    """Split one enumeration task into sub-tasks by the answers to the first `depth`
    choice points (discovered by running the prefixes with default continuation)."""
    from .core import HarnessError

    prefixes = [[]]
    rf = reward_fn_of(task)
    bk, k = budget_of(task)
    for d in range(depth):
        new = []
        for p in prefixes:
            if len(p) < d:
                new.append(p)
                continue
            try:
                pts, _ = world.execute(task["cfg"], p, None, -1, task["T"], rf, [],
                                       learner_classes() if callable(learner_classes) else learner_classes, labels)
            except (world.AlgoCrash, world.Violation):
                pts = list(world.seam().src.points)
            if len(pts) <= len(p):
                new.append(p)
                continue
            kind, n = pts[len(p)][0], pts[len(p)][1]
            budgeted = bk is not None and (bk == "*" or kind in bk)
            if budgeted:
                used = sum(1 for q in pts[: len(p)] if q[2] != 0 and (bk == "*" or q[0] in bk))
                if used >= k:
                    n = 1
            for a in range(n):
                new.append(p + [a])
        prefixes = new
    out = []
    for p in prefixes:
        t = dict(task)
        t["prefix"] = p
        t["label"] = "%s/%s" % (task.get("label", ""), "".join(map(str, p)))
        out.append(t)
    return out


def bystander_tasks(label, cfg, R, T_long, T_short=24, bases=("twopeak", "alt"), k=1, **extra):
    """Task family `by/...`: the same oracle, with a second instance of the same class (other parameters, moved and
    scaled box; configs.bystander_of) constructed right after the object under check and driven in lock-step with it
    (world.Bystander).  E-dev(T_short, k) on the first base script plus the bare base scripts (k = 0) over T_long rounds."""
    from . import configs

    c = configs.with_bystander(cfg)
    ts = [dict({"kind": "algo", "label": "by/%s/dev" % label, "cfg": c, "mode": "dev", "T": T_short, "R": list(R), "base": bases[0], "k": k,
                "cost": 3}, **extra)]
    for b in bases:
        ts.append(dict({"kind": "algo", "label": "by/%s/%s" % (label, b), "cfg": c, "mode": "dev", "T": T_long, "R": list(R), "base": b, "k": 0,
                        "cost": 1}, **extra))
    return ts

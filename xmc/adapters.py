"""Per-algorithm observation adapters: which cell did the last pull hand out, how to read
a cell's counters.  Only the attributes named in the properties' anchors are used; a
missing attribute is a HarnessError ("cannot observe"), never a violation."""
import math

import numpy as np

from .core import HarnessError, Violation

TREE_BANDITS = ("T_HOO", "HCT", "VHCT")


def kind_of(algo):
    return type(algo).__name__


def _attr(obj, name):
    try:
        return getattr(obj, name)
    except AttributeError:
        raise HarnessError("cannot observe: %s has no attribute %r" % (type(obj).__name__, name))


def handed_cell(algo):
    """The cell whose representative the last pull returned (None if the algorithm
    handed out something that is not a search cell, e.g. SequOOL/StroquOOL after the end)."""
    k = kind_of(algo)
    if k in ("T_HOO", "HCT", "VHCT"):
        path = _attr(algo, "path")
        return path[-1]
    if k in ("DOO", "SOO", "SequOOL", "StroquOOL"):
        return _attr(algo, "curr_node")
    if k == "StoSOO":
        h = _attr(algo, "max_b_node_h")
        i = _attr(algo, "max_b_node_ind")
        return algo.partition.get_node_list()[h][i]
    if k == "VROOM":
        return _attr(algo, "curr_node")
    raise HarnessError("no handed_cell adapter for %s" % k)


def credited_cells(algo):
    """Cells that must be credited with the next reward, by the crediting rule of C04,
    derived from the handed-out cell (not from the implementation's own bookkeeping)."""
    k = kind_of(algo)
    if k == "T_HOO":
        cell = handed_cell(algo)
        out = []
        while cell is not None:
            out.append(cell)
            cell = cell.get_parent()
        return list(reversed(out))
    if k == "VROOM":
        ul = list(_attr(algo, "update_list"))
        return ul
    return [handed_cell(algo)]


class CellStats:
    __slots__ = ("count", "rewards", "mean", "var", "single")

    def __init__(self):
        self.count = None
        self.rewards = None
        self.mean = None
        self.var = None
        self.single = None


def read_cell(kind, node):
    s = CellStats()
    if kind in ("T_HOO", "HCT", "VHCT", "StoSOO"):
        s.count = node.get_visited_times()
        s.rewards = list(_attr(node, "rewards"))
        s.mean = node.get_mean_reward()
        if kind == "VHCT":
            s.var = _attr(node, "variance")
    elif kind in ("SOO", "DOO"):
        s.single = node.get_reward()
        s.count = 1 if _attr(node, "visited") else 0
    elif kind == "SequOOL":
        s.rewards = list(_attr(node, "rewards"))
        s.count = len(s.rewards)
    elif kind == "StroquOOL":
        s.rewards = list(_attr(node, "rewards"))
        s.count = node.get_visited_times()
    elif kind == "VROOM":
        s.rewards = list(_attr(node, "reward"))
        s.count = node.get_eval_time()
    else:
        raise HarnessError("no read_cell adapter for %s" % kind)
    return s


def close(a, b, tol=1e-9, scale=0.0):
    """|a-b| <= tol * max(1, |a|, |b|, scale).  `scale` is the magnitude of the operands the value was computed from
    (e.g. the largest |reward| of a history): a mean of large cancelling rewards is only accurate relative to them."""
    a = float(a)
    b = float(b)
    if a == b:
        return True
    if not (math.isfinite(a) and math.isfinite(b)):
        return False
    return abs(a - b) <= tol * max(1.0, abs(a), abs(b), abs(float(scale)))


def in_box(x, box):
    return all(float(lo) <= float(v) <= float(hi) for v, (lo, hi) in zip(x, box))

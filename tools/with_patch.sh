#!/bin/sh
# evidence / replay files of runs on a patched tree go to a scratch directory, never to /verif/evidence
XMC_EVIDENCE_DIR=${XMC_EVIDENCE_DIR:-/tmp/patched_ev}; XMC_REPLAY_DIR=${XMC_REPLAY_DIR:-/tmp/patched_ev}; export XMC_EVIDENCE_DIR XMC_REPLAY_DIR; mkdir -p /tmp/patched_ev
# usage: with_patch.sh [-R] <patch> -- <command...>
# applies <patch> (reversed with -R) to /repo's working tree, runs the command, then restores the tree
# (also when interrupted).
REV=""
if [ "$1" = "-R" ]; then REV="-R"; shift; fi
PATCH="$(realpath "$1")"; shift; shift
git -C /repo diff --quiet || { echo "with_patch: /repo working tree is dirty" >&2; exit 3; }
trap 'git -C /repo checkout -- .' EXIT INT TERM
git -C /repo apply $REV "$PATCH" || { echo "with_patch: patch does not apply" >&2; exit 3; }
"$@"
RC=$?
git -C /repo checkout -- .
exit $RC

#!/bin/sh
# runs every quick (or $1=thorough) check on /repo's current tree, one after the other; prints a summary
TIER="${1:-quick}"
cd "$(dirname "$0")/.." || exit 2
git -C /repo diff --quiet || echo "WARNING: /repo working tree is dirty"
RC=0
for c in C01 C02 C03 C04 C05 C06 C07 C08 C09 C10 C11 C12 C13 C14 C15 C16 C17; do
  OUT=$(./check $c --tier "$TIER" 2>&1); R=$?
  echo "$OUT" | grep "^$c \(OK\|FAIL\)\|^VIOLATION\|^HARNESS\|^KNOWN" | cut -c1-220
  [ $R -ne 0 ] && RC=1
done
exit $RC

#!/bin/sh
# evidence / replay files of runs on a patched tree go to a scratch directory, never to /verif/evidence
XMC_EVIDENCE_DIR=${XMC_EVIDENCE_DIR:-/tmp/patched_ev}; XMC_REPLAY_DIR=${XMC_REPLAY_DIR:-/tmp/patched_ev}; export XMC_EVIDENCE_DIR XMC_REPLAY_DIR; mkdir -p /tmp/patched_ev
# usage: eval_seed.sh <id> <patch> <demo.py> [checks...]
# Confirms a seeded change independently and runs checks against it:
#  1. fresh scratch worktree of /repo HEAD under /tmp: demo passes on the original code
#  2. patch applies; the repository's own test suite passes with it; demo fails with it
#  3. the listed checks (default: the id's own) are run against that worktree (PYXAB_REPO); /repo is not touched
# Prints one summary line per step; leaves nothing behind.
ID="$1"; PATCH="$(realpath "$2")"; DEMO="$(realpath "$3")"; shift 3
CHECKS="$*"
WT=/tmp/evalwt_$ID_$$
git -C /repo worktree add --detach "$WT" HEAD -q || exit 2
cleanup() { git -C /repo worktree remove --force "$WT" 2>/dev/null; }
trap cleanup EXIT INT TERM
cd "$WT" || exit 2
cp "$DEMO" "$WT/demo.py"
PYTHONPATH="$WT" timeout 600 /venv/bin/python demo.py >/tmp/evalseed_$$.log 2>&1; D0=$?
echo "demo on original: exit $D0"
git apply "$PATCH" || { echo "patch does not apply to HEAD"; exit 3; }
PYTHONPATH="$WT" timeout 1200 /venv/bin/python -m pytest -q -p no:cacheprovider --timeout=900 PyXAB/tests 2>&1 | tail -1 > /tmp/evalseed_t_$$.log
echo "test suite with change: $(cat /tmp/evalseed_t_$$.log)"
PYTHONPATH="$WT" timeout 600 /venv/bin/python demo.py >/tmp/evalseed_$$.log 2>&1; D1=$?
echo "demo on change: exit $D1 ($(tail -1 /tmp/evalseed_$$.log | cut -c1-200))"
rm -f /tmp/evalseed_$$.log /tmp/evalseed_t_$$.log
cd /verif || exit 2
# the checks are pointed at the scratch worktree (which now carries the change) with PYXAB_REPO: /repo is never touched
for c in ${CHECKS:-$ID}; do
  OUT=$(PYXAB_REPO="$WT" timeout 1500 ./check "$c" --tier quick 2>&1)
  RC=$?
  echo "check $c: exit $RC $(echo "$OUT" | grep -c '^VIOLATION') violation line(s)"
  echo "$OUT" | grep -A2 '^VIOLATION' | head -3 | cut -c1-260
done

#!/usr/bin/env python3
"""Detection corpus runner: for every patch in /verif/mutants/index.json
  - make a scratch git worktree of /repo HEAD under /tmp, apply the patch there,
  - run the repository's own test suite on it (must pass: the change is test-suite-invisible),
  - run the listed quick checks with PYXAB_REPO=<scratch> (expected: exit 1 with a VIOLATION line),
  - remove the worktree.
Evidence/replay files of these runs go to a temporary directory, never to /verif/evidence.
usage: tools/mutants.py [name-substring] [--skip-tests] [-j N]
Writes /verif/mutants/RESULTS.md."""
import json
import os
import shutil
import subprocess
import sys
import tempfile
from concurrent.futures import ThreadPoolExecutor

HERE = os.path.dirname(os.path.dirname(os.path.abspath(__file__)))


def run_one(name, checks, skip_tests):
    wt = tempfile.mkdtemp(prefix="mut_%s_" % name, dir="/tmp")
    os.rmdir(wt)
    ev = tempfile.mkdtemp(prefix="mutev_", dir="/tmp")
    res = {"name": name, "tests": None, "checks": {}}
    try:
        subprocess.run(["git", "-C", "/repo", "worktree", "add", "--detach", wt, "HEAD", "-q"], check=True, capture_output=True)
        p = subprocess.run(["git", "-C", wt, "apply", os.path.join(HERE, "mutants", name + ".patch")], capture_output=True, text=True)
        if p.returncode != 0:
            res["tests"] = "patch does not apply: " + p.stderr.strip()[:100]
            return res
        env = dict(os.environ, PYTHONPATH=wt, PYTHONDONTWRITEBYTECODE="1")
        if not skip_tests:
            t = subprocess.run(["/venv/bin/python", "-m", "pytest", "-q", "-p", "no:cacheprovider", "--timeout=900", "PyXAB/tests"], cwd=wt,
                               env=env, capture_output=True, text=True, timeout=1800)
            res["tests"] = t.stdout.strip().splitlines()[-1] if t.stdout.strip() else "no output"
        for c in checks:
            env2 = dict(os.environ, PYXAB_REPO=wt, XMC_EVIDENCE_DIR=ev, XMC_REPLAY_DIR=ev, XMC_WORKERS=os.environ.get("XMC_WORKERS", "8"))
            try:
                r = subprocess.run([os.path.join(HERE, "check"), c, "--tier", "quick"], cwd=HERE, env=env2, capture_output=True, text=True, timeout=2400)
                first = [l for l in r.stdout.splitlines() if l.startswith("  oracle=")][:1]
                msg = [l for l in r.stdout.splitlines() if l.startswith("VIOLATION")]
                res["checks"][c] = (r.returncode, len(msg), first[0].strip()[:90] if first else "")
            except subprocess.TimeoutExpired:
                res["checks"][c] = ("timeout", 0, "")
    finally:
        subprocess.run(["git", "-C", "/repo", "worktree", "remove", "--force", wt], capture_output=True)
        shutil.rmtree(ev, ignore_errors=True)
        shutil.rmtree(wt, ignore_errors=True)
    return res


def main():
    args = [a for a in sys.argv[1:] if not a.startswith("-")]
    skip = "--skip-tests" in sys.argv
    j = 2
    if "-j" in sys.argv:
        j = int(sys.argv[sys.argv.index("-j") + 1])
        args = [a for a in args if a != str(j)]
    idx = json.load(open(os.path.join(HERE, "mutants", "index.json")))
    names = [n for n in idx if n != "comment" and (not args or any(a in n for a in args))]
    out = []
    with ThreadPoolExecutor(j) as ex:
        for res in ex.map(lambda n: run_one(n, idx[n], skip), names):
            line = "%-22s tests: %-28s " % (res["name"], res["tests"]) + "  ".join(
                "%s:%s" % (c, "DETECTED" if v[0] == 1 and v[1] > 0 else "MISSED(exit %s)" % v[0]) for c, v in res["checks"].items())
            print(line, flush=True)
            out.append((res, line))
    if not args:
        with open(os.path.join(HERE, "mutants", "RESULTS.md"), "w") as f:
            f.write("# Detection corpus results (tools/mutants.py, quick tier)\n\n| change | repository tests | checks |\n|---|---|---|\n")
            for res, line in out:
                f.write("| %s | %s | %s |\n" % (res["name"], res["tests"], "; ".join(
                    "%s %s%s" % (c, "detected" if v[0] == 1 and v[1] > 0 else "MISSED (exit %s)" % v[0], (" — " + v[2]) if v[2] else "")
                    for c, v in res["checks"].items())))
    missed = [r["name"] for r, _ in out if any(not (v[0] == 1 and v[1] > 0) for v in r["checks"].values())]
    print("missed:", missed)
    return 1 if missed else 0


if __name__ == "__main__":
    sys.exit(main())

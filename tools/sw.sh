#!/bin/sh
# usage: sw.sh <patch> <command...>  - runs a command with PYXAB_REPO pointing at a scratch worktree of /repo HEAD carrying the patch
P="$(realpath "$1")"; shift
WT=/tmp/sw_$$
git -C /repo worktree add --detach "$WT" HEAD -q || exit 2
trap 'git -C /repo worktree remove --force "$WT" 2>/dev/null' EXIT INT TERM
git -C "$WT" apply "$P" || exit 3
XMC_EVIDENCE_DIR=/tmp/sw_ev_$$ XMC_REPLAY_DIR=/tmp/sw_ev_$$ PYXAB_REPO="$WT" "$@"
RC=$?
rm -rf /tmp/sw_ev_$$
exit $RC

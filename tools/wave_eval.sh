#!/bin/sh
# usage: wave_eval.sh <Cxx> <suffix> <srcdir> [checks...]  - copies a sub-agent's deliverables to seeded/<Cxx><suffix>/ and evaluates them
ID="$1"; SUF="$2"; SRC="$3"; shift 3
D=/verif/seeded/$ID$SUF
mkdir -p "$D"
cp "$SRC/patch.diff" "$SRC/demo.py" "$SRC/NOTES.md" "$D/" || exit 2
XMC_EVIDENCE_DIR=/tmp/patched_ev_$ID$SUF XMC_REPLAY_DIR=/tmp/patched_ev_$ID$SUF /verif/tools/eval_seed.sh "$ID$SUF" "$D/patch.diff" "$D/demo.py" ${*:-$ID} > /tmp/wave_$ID$SUF.log 2>&1
rm -rf /tmp/patched_ev_$ID$SUF
cat /tmp/wave_$ID$SUF.log

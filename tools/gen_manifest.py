#!/usr/bin/env python3
"""Regenerates /verif/MANIFEST.json from the table below (kept valid at all times)."""
import json
import os
import subprocess

HERE = os.path.dirname(os.path.dirname(os.path.abspath(__file__)))

FIX_COMMITS = []  # hooks: none (no guarded source changes are needed)

CHECKS = {
    "C01": ("model_checking", "3 C01",
            "Bounded-exhaustive exploration of the real ask/tell loop: every reward sequence over a 4-value alphabet (incl. 1e6 and "
            "negatives) for T<=4..6 and every script within k deviations of six base scripts for T up to the budget, over the whole "
            "algorithm x partition x box x parameter pool, with every RNG answer of the partitions/VROOM enumerated from a seam; "
            "never-hangs is decided by a deterministic branch-count budget (sys.monitoring), not wall clock.",
            "Trusts NumPy and CPython; alphabets and horizons are finite (coverage.bounds); known findings D7,D8,D10,D11 are listed in known_findings.json.",
            "stateless bounded-exhaustive script enumeration (E-full/E-dev) of the implementation, totality + box-membership oracle"),
    "C02": ("model_checking", "3 C02",
            "Every operation sequence deepen/make_children up to N on all 11 partition variants over a box pool with floating-point "
            "corner boxes and every split-dimension / split-fraction answer (bounded deviations), judged by exact bit-level and "
            "rational-arithmetic oracles per expansion and per state; same oracles inside algorithm explorations, along root-to-leaf chains of 70-140 "
            "splits on non-dyadic boxes (E-dive), and on argument forms JSON literals do not exercise (rows that are one list object, integer bounds).",
            "Finite box alphabet stands in for 'arbitrary real bounds'; NumPy linspace/arith trusted; magnitudes >1e300 not explored.",
            "explicit-state exploration of operation sequences (E-ops) on the real partition objects with canonical-state de-duplication"),
    "C03": ("model_checking", "3 C03",
            "Every interleaving of deepen()/make_children up to N operations on all partition variants (states de-duplicated on a "
            "canonical tree digest), plus the same index/tree invariant after every round of E-full/E-dev explorations of every "
            "tree-building algorithm (incl. learners inside POO/GPO, StroquOOL budgets 600/1000), with get_last_point() as a choice point after any round.",
            "Public getters report the real state; bounds N, T, k in coverage.bounds.",
            "explicit-state exploration (E-ops) + stateless script enumeration of algorithm runs, invariant oracle on every state"),
    "C04": ("model_checking", "3 C04",
            "Every reward sequence in {0,1,-1}^T (T=7/9) and every script within k deviations of base scripts over 60-150 rounds, for every "
            "algorithm (wrappers with recording learners) on three partitions; after every round a harness ledger built from the "
            "crediting rule of the statement is compared with counts, reward lists, means and variances of every cell reachable from the root.",
            "The anchored attributes name the handed-out cell (its representative is checked against the returned point); GPO validation rounds are recognised inside the published horizon.",
            "stateless bounded-exhaustive script enumeration of the implementation in lock-step with a ledger reference model"),
    "C05": ("model_checking", "3 C05",
            "Every reward sequence in {0,1}^8 / {0,1,-1}^6 (quick; 10/8 thorough) and every script within k deviations of base scripts over 70 "
            "rounds, for T-HOO/HCT/VHCT x 4 partitions x parameter grid; the stored U/B of every non-root cell is re-derived from the raw "
            "history after every round and every descent step is checked against the reference B-values and the published stopping rule.",
            "c1*delta<=1/2 alphabets; admitted degrees of freedom listed in the evidence assumptions; tolerance 1e-9.",
            "stateless bounded-exhaustive script enumeration of the implementation in lock-step with a reference checker (published pseudo-code)"),
    "C06": ("model_checking", "3 C06",
            "Same execution space as C05; every recorded make_children call is judged against the published growth rule (at most one per "
            "round, under the pulled cell, only a leaf, fresh children, exactly when depth/threshold rule says so).",
            "Ambiguous rounds (readings of the rule disagree) are counted and skipped; c1*delta<=1/2 alphabets.",
            "stateless bounded-exhaustive script enumeration of the implementation with a growth-rule reference checker"),
    "C07": ("model_checking", "3 C07",
            "Every reward sequence over {0,1,-1}^T and the all-non-positive alphabet {0,-1,-0.5}^T and scripts within k deviations of base "
            "scripts up to the end of the StroquOOL/GPO schedules; after every round get_last_point() is compared with the harness "
            "ledger of (point, reward) pairs, recorded means, validation means and learner scores.",
            "Queries are made on the live object; nothing is judged before the first validated candidate exists (finding D10 of C01).",
            "stateless bounded-exhaustive script enumeration of the implementation against a (point, reward) ledger reference"),
    "C08": ("model_checking", "3 C08",
            "Every reward sequence in {0,1,-1}^T and scripts within k deviations over 100 rounds for SOO/StoSOO(k)/DOO(default and user delta) "
            "x 4 partitions x depth caps; a model of the tree updated from recorded make_children calls judges every expansion and "
            "hand-out against the optimistic rule (evaluated-once/k-times, sweep order, best-of-depth, monotone sweep, one expansion per DOO pull).",
            "Sweep order = depth-major, creation order within depth; any arg-max accepted on ties.",
            "stateless bounded-exhaustive script enumeration of the implementation in lock-step with a reference model of the optimistic sweep"),
    "C11": ("model_checking", "3 C11",
            "Zooming x 11 partition variants x d in {1,2} x three (nu,rho) sets; every reward sequence in {0,1,-1}^7 and scripts within k "
            "deviations over 70-120 rounds (five phase boundaries); per round: arms inside their cells, every leaf owned by an active "
            "arm, pulled arm maximises the index with a reference phase counter, refinement exactly when radius <= nu*rho^depth, fresh arms at the centres of the other children.",
            "Phase-boundary rounds where old/new phase disagree on refinement are counted ambiguous; tolerance 1e-9.",
            "stateless bounded-exhaustive script enumeration of the implementation in lock-step with a reference checker (coverage invariant + index/refinement rule)"),
    "C12": ("model_checking", "3 C12",
            "SequOOL x 3 partitions: every reward sequence over the whole schedule (plus tail) for n in {10,11,12} and every script within "
            "k deviations of base scripts over the whole schedule + 3 tail rounds for n in 10..40 and 100; every make_children call is an "
            "opening judged against the harmonic-budget schedule, hand-outs against child order, exhaustion against the domain centre / unchanged recommendation.",
            "Runs are continued past n rounds where needed to reach the end of the schedule; ties free.",
            "stateless bounded-exhaustive script enumeration of the implementation in lock-step with a reference model of the opening schedule"),
    "C13": ("model_checking", "3 C13",
            "VROOM x n in {4,8,16} x depth caps below/equal/above the ranking depth x 6 binary-child partition settings; rewards fully "
            "enumerated for 2-4 rounds and every outcome of the internal sampling (cell index, descent directions, split/uniform fractions) "
            "with <= k departures from the default; the probability vector intercepted at the sampler, the rank permutations, the drawn "
            "cell, the credited path and the returned point are judged at every pull.",
            "np.random.choice is trusted to honour p; binary-child partitions only; rank ties free.",
            "stateless bounded-exhaustive enumeration of rewards and RNG answers through an in-process RNG seam, reference checker on the sampler's input"),
    "C09": ("model_checking", "3 C09",
            "The reward-independent schedule is enumerated exhaustively: every integer budget n in [100,600] (thorough: 2000) x 8 rho_max x 2 "
            "nu_max x 3 base names with recording stub learners, driven to n+3 rounds, plus real learners (GPO x3, PCT, VPCT) under all "
            "reward sequences of the first rounds and deviation-bounded scripts over n=100; every learner construction, pull, reward "
            "delivery, validation score and final recommendation is compared with a model of GPO.png.",
            "floor(n/2N)=0 configurations are skipped (finding D11 of C01); stubs keep the dispatch names.",
            "exhaustive enumeration of schedules (E-sched) and scripts against a reference model of the published phase machine"),
    "C10": ("model_checking", "3 C10",
            "POO x 4 rho_max x 3 base names x {stub, real learners}: every reward sequence in {0,1,-1}^8 and deviation-bounded scripts over "
            "100-400 rounds (creation batches and round-robin passes) and every horizon T in 2..130 with budget = T; per round exactly one learner pulled and rewarded, learners only "
            "added on the published rho grid, scores/counts equal the mean/length of each learner's own ledger, recommendation = next proposal of a best learner.",
            "rho_max >= 0.84 (finding D7 of C01 below that); ties between learners free.",
            "stateless bounded-exhaustive script enumeration of the implementation with recording learners against a routing/score ledger"),
    "C15": ("model_checking", "3 C15",
            "For the twelve listed algorithms x 3 partitions every reward sequence in {0,1,-1}^T is run in lock-step with shadow instances "
            "that differ only in the time labels (t0 in {0,17}, 2i, i^2 vs 1+i) and must propose identical points and recommendations; for "
            "T-HOO/HCT/VHCT/Zooming/POO a shadow receives get_last_point() 0/1/2 times after every round (every placement a choice point) and "
            "must propose identical points there and in a 6-round continuation.",
            "Shadows are fed the reference run's RNG answers; a different question counts as divergence. StoSOO/StroquOOL are outside the statement.",
            "stateless bounded-exhaustive enumeration of reward sequences and query placements with lock-step differential (shadow) execution"),
    "C16": ("model_checking", "3 C16",
            "All algorithm variants x 11 partitions x 3 boxes: every reward sequence in {0,1,-1}^T (RNG answers enumerated as interval "
            "fractions, <=1 deviation) in lock-step with shadow instances on affine images of the box (7 exact maps compared bit-exactly "
            "where the partition arithmetic is dyadic, 2 inexact maps to 1e-9), plus long runs on rewards that are a function of the "
            "normalised coordinate; point sequences and recommendations must be the images.",
            "Dyadic split-fraction menu; default-delta DOO shadowed by translations only; Zooming / default-delta DOO not judged under inexact arithmetic.",
            "stateless bounded-exhaustive script enumeration with lock-step differential (shadow) execution on affine images"),
    "C14": ("model_checking", "3 C14",
            "(a) every algorithm variant x 3 partitions x NumPy seeds x every reward script in {0,1}^5: twice in-process (after two unrelated "
            "instances lived in that process, with different random.seed) and once in a pristine second process with another "
            "PYTHONHASHSEED, random.seed and a shifted clock - identical runs; (b) ALL interleavings of the pull/receive_reward half-steps of "
            "two independently constructed instances (every pair of RNG-free variants incl. same class) x every reward assignment: each "
            "instance reproduces its solo trace and recommendation; (c) the domain argument is deep-compared before/after.",
            "RNG-free partitions for (b); solo traces computed by the same code on fresh objects; a failure of (a) that does not reproduce is itself reported.",
            "exhaustive enumeration of interleavings of two instances (schedule exploration) and of seeds x reward scripts with cross-process differential execution"),
    "C17": ("exploration", "3 C17",
            "Every point of a finite lattice (cell centres and boundaries generated by the library's own deterministic partitions on each "
            "objective's documented domain down to depth 13-16 in 1-D, 6-7 per axis in 2-D, plus corners, documented maximisers and their "
            "float neighbours; DoubleSine parameter grid; perturbed variants over the normal-draw menu) is evaluated: f finite, f <= fmax "
            "exactly, evaluation pure (bit-identical twice, no random draw), fmax attained at the documented maximiser, wrong dimension rejected; "
            "plus every evaluation history of length <= 3-4 on one object (E-hist) and every ordered pair (class A at p, class B at q) across objects and "
            "classes against values from a pristine process (E-xhist).",
            "The property quantifies over every real point; a finite lattice decides nothing off the lattice - hence level 'exploration', not model checking (DESIGN.md section 7).",
            "exhaustive evaluation over a finite input lattice (E-lattice); no claim beyond the lattice"),
}

LATER = {
}

NOT_YET = {}


def main():
    checks = []
    for pid in sorted(CHECKS):
        cat, ref, text, note, tech = CHECKS[pid]
        checks.append({
            "property_id": pid,
            "quick_cmd": "./check %s --tier quick" % pid,
            "thorough_cmd": "./check %s --tier thorough" % pid,
            "evidence_file": "/verif/evidence/%s.json" % pid,
            "replay_cmd_template": "./check replay {path}",
            "engine": "xmc",
            "level_claimed": {"category": cat, "text": text, "design_ref": "DESIGN.md section " + ref},
            "level_note": note,
            "technique": tech,
        })
    props = [json.loads(l)["id"] for l in open(os.path.join(HERE, "properties.jsonl"))]
    na = []
    for pid in props:
        if pid not in CHECKS:
            na.append({"property_id": pid, "reason": NOT_YET.get(pid, "check not built yet in this revision of /verif (work in progress; see DESIGN.md section 3)")})
    man = {
        "version": 1,
        "setup_cmd": "mkdir -p /verif/evidence /verif/replays && /venv/bin/python -c 'import numpy, sys; sys.path.insert(0, \"/repo\"); import PyXAB'",
        "hooks": {
            "guard": "PYXAB_VERIF",
            "enable": "no source hooks are needed: observation uses the public API, per-instance wrappers and an in-process RNG seam (DESIGN.md 2.2); the guard is unused",
            "baseline_off_cmd": "cd /repo && /venv/bin/python -m pytest -ra -q -p no:cacheprovider --timeout=900 --continue-on-collection-errors",
            "source_commits": [],
            "add_only": True,
        },
        "engines": [{"name": "xmc", "path": "/verif/xmc", "serves_properties": sorted(CHECKS),
                     "kind_free_text": "hand-written stateless bounded-exhaustive explorer (CHESS-style script enumeration with deviation bounds) driving the real PyXAB objects in-process, reference models as lock-step checkers"}],
        "checks": checks,
        "not_applicable": na,
        "notes": "Exit codes: 0 held (KNOWN-FINDING lines allowed), 1 VIOLATION, 2 harness error. Genuine defects repaired by 'fix:' commits in /repo and recorded in known_findings.json. The thorough tier has a wall-clock budget per check (XMC_BUDGET seconds, default 1500) and per task (XMC_TASK_CAP, default 600): an enumeration cut by it is reported in the evidence (exhaustive: false, caps_hit), never as a verdict. Algorithm-level checks C04-C13 also run 'by/' task families: the same oracle while a second instance of the same class (other parameters, other box) is constructed after the object under check and driven in lock-step with it (world.Bystander; DESIGN.md 9.3, sixth wave).",
    }
    with open(os.path.join(HERE, "MANIFEST.json"), "w") as f:
        json.dump(man, f, indent=1)
    print("MANIFEST.json written: %d checks, %d not_applicable" % (len(checks), len(na)))


if __name__ == "__main__":
    main()

#!/bin/sh
# behaviour-preserving variants of the code (different tie-break, published placement of the HCT refresh, another
# arithmetic for K-ary boundaries): the property holds, so NO check may raise an alarm.  Runs every quick check
# against each mutants/benign_*.patch in a scratch worktree; prints anything that is not "OK".
cd "$(dirname "$0")/.." || exit 2
RC=0
for P in ${@:-mutants/benign_*.patch}; do
  N=$(basename "$P" .patch)
  WT=$(mktemp -d /tmp/benign_XXXXXX); rmdir "$WT"
  git -C /repo worktree add --detach "$WT" HEAD -q || exit 2
  git -C "$WT" apply "$(realpath "$P")" || { echo "$N: patch does not apply"; RC=1; git -C /repo worktree remove --force "$WT"; continue; }
  ( cd "$WT" && PYTHONPATH="$WT" /venv/bin/python -m pytest -q -p no:cacheprovider --timeout=900 PyXAB/tests 2>&1 | tail -1 )
  for c in ${CHECKS:-C01 C02 C03 C04 C05 C06 C07 C08 C09 C10 C11 C12 C13 C14 C15 C16 C17}; do
    OUT=$(PYXAB_REPO="$WT" XMC_EVIDENCE_DIR=/tmp/benign_ev XMC_REPLAY_DIR=/tmp/benign_ev ./check $c --tier quick 2>&1); R=$?
    if [ $R -ne 0 ]; then RC=1; echo "$N $c: exit $R"; echo "$OUT" | grep -A2 "^VIOLATION\|^HARNESS" | head -4 | cut -c1-300; fi
  done
  echo "$N done"
  git -C /repo worktree remove --force "$WT"
done
rm -rf /tmp/benign_ev
exit $RC

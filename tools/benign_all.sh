#!/bin/sh
# every benign variant against the check of its own property and the closest relatives
cd "$(dirname "$0")/.." || exit 2
rel() { case "$1" in
 C01) echo "C01 C05 C04";; C02) echo "C02 C03 C16";; C03) echo "C03 C02 C04";; C04) echo "C04 C05 C11";; C05) echo "C05 C06 C04";;
 C06) echo "C06 C05";; C07) echo "C07 C08 C12";; C08) echo "C08 C07 C04";; C09) echo "C09 C07 C04";; C10) echo "C10 C07 C04";;
 C11) echo "C11 C04 C16";; C12) echo "C12 C07";; C13) echo "C13 C04";; C14) echo "C14 C09 C10";; C15) echo "C15 C05 C11";;
 C16) echo "C16 C11 C08";; C17) echo "C17";; esac; }
for P in mutants/benign_agent*_C*.patch; do
  C=$(echo "$P" | sed 's/.*_\(C[0-9][0-9]\)\.patch/\1/')
  CHECKS="$(rel $C)" tools/benign.sh "$P" 2>&1 | grep -v "passed"
done
CHECKS="C05 C06 C04 C15 C14" tools/benign.sh mutants/benign_hoo_firstmax.patch mutants/benign_hct_refresh_first.patch 2>&1 | grep -v passed
CHECKS="C07 C08" tools/benign.sh mutants/benign_soo_lastpoint_first.patch 2>&1 | grep -v passed
CHECKS="C11 C04 C15 C16" tools/benign.sh mutants/benign_zoom_firstmax.patch 2>&1 | grep -v passed
CHECKS="C02 C03 C16 C01" tools/benign.sh mutants/benign_kary_arith.patch 2>&1 | grep -v passed

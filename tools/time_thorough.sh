#!/bin/sh
# runs each thorough check with a one-hour cap and prints its verdict line and wall time
cd "$(dirname "$0")/.." || exit 2
for c in ${*:-C02 C03 C04 C05 C06 C07 C08 C09 C10 C11 C12 C13 C14 C15 C16 C17 C01}; do
  S=$(date +%s)
  OUT=$(XMC_EVIDENCE_DIR=/tmp/thorough_ev XMC_REPLAY_DIR=/tmp/thorough_ev timeout 3600 ./check $c --tier thorough 2>&1); R=$?
  E=$(date +%s)
  echo "== $c exit $R wall $((E-S))s"
  echo "$OUT" | grep "^$c \(OK\|FAIL\)\|^VIOLATION\|^HARNESS\|^  oracle\|^  [a-z(]" | head -6 | cut -c1-250
done

#!/bin/sh
# usage: mkmut.sh <name> <file relative to /repo> <python-regex-search> <replacement> [count]
# creates /verif/mutants/<name>.patch from a one-spot textual substitution
cd /repo || exit 2
git diff --quiet || { echo "dirty /repo"; exit 3; }
python3 - "$@" <<'PY'
import sys,re
name,f,pat,rep=sys.argv[1:5]
s=open(f).read()
n=len(re.findall(pat,s))
if n<1: print("pattern not found"); sys.exit(4)
cnt=int(sys.argv[5]) if len(sys.argv)>5 else 1
s2=re.sub(pat,rep,s,count=cnt)
open(f,'w').write(s2)
PY
RC=$?
git diff > /verif/mutants/$1.patch
git checkout -- .
[ $RC -eq 0 ] && [ -s /verif/mutants/$1.patch ] && echo "made $1 ($(grep -c '^[-+][^-+]' /verif/mutants/$1.patch) changed lines)"

#!/usr/bin/env python3
"""Re-runs the check of each seeded change's property against the change (scratch worktree, PYXAB_REPO):
usage: tools/reseed.py [Cxx ...]   (default: all).  Expected: DETECTED for every seeded/<id>[bcde]/patch.diff."""
import glob
import json
import os
import shutil
import subprocess
import sys
import tempfile
from concurrent.futures import ThreadPoolExecutor

HERE = os.path.dirname(os.path.dirname(os.path.abspath(__file__)))


def one(d):
    name = os.path.basename(d)
    prop = json.load(open(os.path.join(d, "meta.json")))["property"]
    wt = tempfile.mkdtemp(prefix="reseed_%s_" % name, dir="/tmp")
    os.rmdir(wt)
    ev = tempfile.mkdtemp(prefix="reseedev_", dir="/tmp")
    try:
        subprocess.run(["git", "-C", "/repo", "worktree", "add", "--detach", wt, "HEAD", "-q"], check=True, capture_output=True)
        p = subprocess.run(["git", "-C", wt, "apply", os.path.join(d, "patch.diff")], capture_output=True, text=True)
        if p.returncode:
            return name, prop, "patch does not apply"
        env = dict(os.environ, PYXAB_REPO=wt, XMC_EVIDENCE_DIR=ev, XMC_REPLAY_DIR=ev, XMC_WORKERS=os.environ.get("XMC_WORKERS", "8"))
        r = subprocess.run([os.path.join(HERE, "check"), prop, "--tier", "quick"], cwd=HERE, env=env, capture_output=True, text=True, timeout=3000)
        nv = len([l for l in r.stdout.splitlines() if l.startswith("VIOLATION")])
        return name, prop, "DETECTED" if (r.returncode == 1 and nv) else "MISSED (exit %s, %d violation lines)" % (r.returncode, nv)
    finally:
        subprocess.run(["git", "-C", "/repo", "worktree", "remove", "--force", wt], capture_output=True)
        shutil.rmtree(ev, ignore_errors=True)
        shutil.rmtree(wt, ignore_errors=True)


def main():
    want = [a for a in sys.argv[1:] if a.startswith("C")]
    dirs = sorted(d for d in glob.glob(os.path.join(HERE, "seeded", "C*")) if os.path.exists(os.path.join(d, "meta.json")))
    dirs = [d for d in dirs if not want or os.path.basename(d)[:3] in want]
    bad = 0
    with ThreadPoolExecutor(2) as ex:
        for name, prop, res in ex.map(one, dirs):
            print("%-6s %s %s" % (name, prop, res), flush=True)
            bad += not res.startswith("DETECTED")
    print("not detected:", bad)
    return 1 if bad else 0


if __name__ == "__main__":
    sys.exit(main())
